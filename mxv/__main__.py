import sys
from mxv.run import main
sys.exit(main())
