"""Thin adapter over the PUBLIC API of the library under test, plus the observation function.

Nothing here reads or writes a private attribute of the library.  Every library call made by a
check goes through ``call`` so that escaping exceptions (with their raise site inside the
package) and anything written to stdout/stderr are recorded.
"""
import io
import os
import sys
import traceback
import warnings

warnings.filterwarnings('ignore', category=SyntaxWarning)

import musicxml  # noqa: E402
import musicxml.xmlelement.xmlelement as X  # noqa: E402
from musicxml.util.core import convert_to_xml_class_name  # noqa: E402
import musicxml.exceptions as _E1  # noqa: E402
import musicxml.xmlelement.exceptions as _E2  # noqa: E402

from .oracle import lexical  # noqa: E402
from .oracle.schema import schema  # noqa: E402

PKG_DIR = os.path.dirname(os.path.abspath(musicxml.__file__)) + os.sep

DOCUMENTED = tuple(
    c for m in (_E1, _E2) for c in vars(m).values()
    if isinstance(c, type) and issubclass(c, Exception))


def py_name(name):
    """schema name -> python identifier used by the dot syntax / constructor keywords"""
    return name.replace('-', '_').replace(':', '_')


def cls_for(name):
    """element class by the documented naming rule"""
    return getattr(X, convert_to_xml_class_name(name))


class Result:
    __slots__ = ('ok', 'value', 'exc', 'etype', 'site', 'out', 'err', 'msg')

    def __init__(self):
        self.ok = True
        self.value = None
        self.exc = None
        self.etype = None
        self.site = None
        self.out = ''
        self.err = ''
        self.msg = ''

    def verdict(self):
        return 'ok' if self.ok else self.etype

    def __repr__(self):
        return 'Result(%s%s)' % (self.verdict(), '' if self.ok else ' @' + str(self.site))


def raise_site(tb):
    """innermost frame inside the musicxml package: 'file.py:function'"""
    site = None
    for fr, _ln in traceback.walk_tb(tb):
        fn = fr.f_code.co_filename
        if fn.startswith(PKG_DIR):
            site = '%s:%s' % (os.path.basename(fn), fr.f_code.co_name)
    return site


SIGHTINGS = []   # (etype, site, out/err snippet) of undocumented behaviour seen by any check (C19 log)


def call(fn, *args, **kwargs):
    r = Result()
    so, se = sys.stdout, sys.stderr
    bo, be = io.StringIO(), io.StringIO()
    sys.stdout, sys.stderr = bo, be
    try:
        r.value = fn(*args, **kwargs)
    except Timeout:
        sys.stdout, sys.stderr = so, se
        raise
    except Exception as ex:   # noqa: BLE001 - verdicts are drawn from the record, never swallowed
        r.ok = False
        r.exc = ex
        r.etype = type(ex).__name__
        r.site = raise_site(ex.__traceback__)
        try:
            r.msg = str(ex)[:300]
        except Exception:   # noqa: BLE001
            r.msg = '<unprintable>'
    finally:
        sys.stdout, sys.stderr = so, se
    r.out = bo.getvalue()
    r.err = be.getvalue()
    return r


class Timeout(BaseException):
    pass


def is_documented(exc):
    return isinstance(exc, DOCUMENTED)


# ----------------------------------------------------------------------------------------------
# construction helpers
# ----------------------------------------------------------------------------------------------

_STUB_VALUE = {}


def stub_value(name):
    """an oracle-valid python value for the text content of element ``name`` (None when none)"""
    if name not in _STUB_VALUE:
        s = schema()
        t = s.element_type[name]
        tt = s.text_type(t)
        v = None
        if tt is not None:
            for txt in lexical.valid_texts(tt):
                ok, pv = lexical.python_value_for(tt, txt)
                if ok and (txt != '' or s.content_kind(t) == 'text'):
                    v = pv
                    if txt != '':
                        break
        _STUB_VALUE[name] = v
    return _STUB_VALUE[name]


def stub(name):
    """child object used to exercise a parent's matcher: oracle-valid value, own checks off"""
    c = cls_for(name)
    v = stub_value(name)
    if v is None:
        return c(xsd_check=False)
    return c(v, xsd_check=False)


_REQ_ATTRS = {}


def required_attrs(name):
    """{python keyword: valid value} for the schema-required attributes of element ``name``"""
    if name not in _REQ_ATTRS:
        s = schema()
        out = {}
        for a in s.attributes_of(s.element_type[name]):
            if a['required']:
                txt = a['fixed'] or lexical.valid_texts(a['type'])[0]
                ok, pv = lexical.python_value_for(a['type'], txt)
                out[py_name(a['qname'].split(':')[-1])] = pv
        _REQ_ATTRS[name] = out
    return dict(_REQ_ATTRS[name])


def fresh(name, checked=True, attrs=True):
    """a fresh element of the class for ``name`` with a valid value where one is needed and (attrs=True)
    its schema-required attributes set, so that only the children decide the final check"""
    c = cls_for(name)
    v = stub_value(name)
    kw = required_attrs(name) if attrs else {}
    if schema().content_kind(schema().element_type[name]) in ('simple', 'text') and v is not None:
        return c(v, xsd_check=checked, **kw)
    return c(xsd_check=checked, **kw)


# ----------------------------------------------------------------------------------------------
# observation
# ----------------------------------------------------------------------------------------------

def child_tags(xml_text):
    import xml.etree.ElementTree as ET
    root = ET.fromstring(xml_text)
    return [c.tag for c in root]


def names(children):
    return [c.name for c in children]
