"""atheris (libFuzzer) driver for the thorough tier of C09 and C19.

The fuzz target is the same Hypothesis property body the random shards use, entered through
``hypothesis.fuzz_one_input`` so that coverage-guided byte mutation drives the same strategies and oracles.
Run as ``python -m mxv.fuzz <PROP> <seed> <seconds> <outdir>`` (a separate process: libFuzzer owns the process);
``run_atheris`` is the in-check wrapper that launches it and folds its result into the shard accumulator.
"""
import json
import os
import subprocess
import sys
import tempfile
import shutil


def run_atheris(ctx, acc, prop, index, seconds=120):
    out = tempfile.mkdtemp(prefix='mxv_fuzz_')
    try:
        env = dict(os.environ)
        cmd = [sys.executable, '-B', '-W', 'ignore', '-m', 'mxv.fuzz', prop, str(ctx.seed * 100 + index), str(seconds),
               out]
        try:
            r = subprocess.run(cmd, env=env, capture_output=True, text=True, timeout=seconds + 300)
        except subprocess.TimeoutExpired:
            acc.inconclusive += 1
            acc.extras.setdefault('atheris', []).append({'index': index, 'status': 'timeout'})
            return
        res_path = os.path.join(out, 'result.json')
        if not os.path.exists(res_path):
            tail = (r.stderr or '')[-400:]
            if 'No module named' in tail and 'atheris' in tail:
                acc.extras.setdefault('atheris', []).append({'index': index, 'status': 'atheris not installed'})
                return
            raise RuntimeError('atheris driver produced no result: rc=%s %s' % (r.returncode, tail))
        with open(res_path, encoding='utf-8') as f:
            res = json.load(f)
        acc.evaluations += res['executions']
        acc.count('atheris-executions', res['executions'])
        acc.count('atheris-valid-examples', res['valid'])
        acc.extras.setdefault('atheris', []).append({'index': index, 'executions': res['executions'],
                                                     'seconds': seconds, 'corpus_files': res.get('corpus', 0),
                                                     'known_finding_hits': res.get('kf_hits', 0)})
        for k, v in res.get('kf_hits_by_id', {}).items():
            acc.kf_hits[k] = acc.kf_hits.get(k, 0) + v
        for smp in res.get('samples', [])[:2]:
            acc.case(smp, True, 0)
        if res.get('failure'):
            acc.fail(res['failure'], raise_=False)
    finally:
        shutil.rmtree(out, ignore_errors=True)


def main():
    prop, seed, seconds, out = sys.argv[1], int(sys.argv[2]), int(sys.argv[3]), sys.argv[4]
    import importlib
    import warnings
    warnings.filterwarnings('ignore')
    import atheris
    from hypothesis import given, settings, strategies as st, HealthCheck
    from .run import Ctx, Acc, Violation
    # bytecode instrumentation of the library under test gives libFuzzer its coverage signal
    with atheris.instrument_imports(include=['musicxml']):
        mod = importlib.import_module('mxv.props.' + prop.lower())
    ctx = Ctx(prop, 'thorough', seed)
    acc = Acc(ctx, {'index': 0})
    body = mod.make_body(ctx, acc)
    state = {'n': 0, 'valid': 0, 'failure': None}

    @settings(database=None, deadline=None, suppress_health_check=list(HealthCheck))
    @given(st.data())
    def prop_test(data):
        body(data)

    fuzz_one = prop_test.hypothesis.fuzz_one_input
    res_path = os.path.join(out, 'result.json')

    def finish():
        smp = list(acc.samples)[:2]
        with open(res_path, 'w', encoding='utf-8') as f:
            json.dump({'executions': state['n'], 'valid': state['valid'], 'failure': state['failure'],
                       'kf_hits': sum(acc.kf_hits.values()), 'kf_hits_by_id': acc.kf_hits, 'samples': smp,
                       'corpus': len(os.listdir(corpus))}, f, default=str)

    def target(data):
        state['n'] += 1
        try:
            r = fuzz_one(data)
            if r is not None:
                state['valid'] += 1
        except Violation as v:
            state['failure'] = v.failure
            finish()
            os._exit(0)
        if state['n'] % 100 == 0:
            finish()

    corpus = os.path.join(out, 'corpus')
    os.makedirs(corpus, exist_ok=True)
    seeds_dir = os.path.join(os.path.dirname(os.path.dirname(os.path.abspath(__file__))), 'corpus', prop, 'fuzz')
    if os.path.isdir(seeds_dir) and seed % 2 == 1:      # odd shards start from the committed corpus, even ones empty
        for fn in os.listdir(seeds_dir):
            shutil.copy(os.path.join(seeds_dir, fn), corpus)
    import atexit  # noqa: F401  (atexit does not run under libFuzzer; finish() is called periodically instead)
    argv = [sys.argv[0], '-max_total_time=%d' % seconds, '-seed=%d' % (seed or 1), '-max_len=4096',
            '-print_final_stats=0', '-verbosity=0', corpus]
    atheris.Setup(argv, target)
    finish()
    try:
        atheris.Fuzz()
    finally:
        finish()


if __name__ == '__main__':
    main()
