"""Hypothesis-facing generators built on the oracle (all randomness comes from ``data.draw``)."""
from hypothesis import strategies as st

from .oracle.schema import schema


def types_and_elements(all_elements=False):
    """[(type key, [element names bound to it])] for the 94 element-content types"""
    s = schema()
    by_type = {}
    for el, t in sorted(s.element_type.items()):
        by_type.setdefault(t, []).append(el)
    out = []
    for t in sorted(s.element_content_types()):
        els = by_type.get(t, [])
        if not els:
            continue
        out.append((t, els if all_elements else els[:1]))
    return out


def draw_word(data, dfa, max_len=12, stop_bias=3):
    """random accepted word: DFA walk, ends with the shortest completion once max_len is reached"""
    word = []
    s = 0
    while len(word) < max_len:
        opts = sorted(dfa.trans[s])
        can_stop = s in dfa.accepting
        if not opts:
            break
        if can_stop and data.draw(st.integers(0, stop_bias)) == 0:
            break
        a = data.draw(st.sampled_from(opts))
        word.append(a)
        s = dfa.trans[s][a]
    word.extend(dfa.shortest_completion(s))
    return tuple(word)


def chunk(seq, n):
    """split into n nearly equal interleaved chunks (deterministic)"""
    seq = list(seq)
    return [seq[i::n] for i in range(n) if seq[i::n]]
