"""Operation histories over one element: language, executor with reference model, adaptive generator.

A history is a JSON list of ops.  Children are addressed by index into the model's current child
list (modulo its length), so deleting an op while shrinking keeps the rest meaningful.

  ["add", name]               add_child(stub(name))
  ["add_fwd", name, k]        add_child(stub(name), forward=k)
  ["remove", i]               remove(model[i])
  ["remove_nonchild", name]   remove(<a stub that was never added>)
  ["add_nested", name]        add_child(<a CHECKED child holding one child of its own>)
  ["share_out", i]            <another element of e's class>.add_child(model[i]): the child object now has two parents
  ["add_again", i]            add_child(model[i]) once more
  ["replace_self", i, dot]    replace_child(model[i], model[i]) / xml_<name> = model[i]: a no-op exchange
  ["remove_grandchild", i]    remove(<first child of the i-th held child that has children>): not a child of e
  ["remove_elsewhere", name]  remove(<a child attached to ANOTHER checked element of e's class>): the bystander must
                              stay as it was (recorded in obs()['side_effects'])
  ["replace", i, name]        replace_child(model[i], stub(name))
  ["replace_nonchild", name]  replace_child(<never added>, stub(name))
  ["dot_inst", name]          e.xml_<name> = stub(name)
  ["dot_val", name, text]     e.xml_<name> = <python value for text>
  ["dot_none", name]          e.xml_<name> = None
  ["set_attr", qname, value]  setattr(e, py(qname), value)
  ["set_attr_none", qname]
  ["set_value", value]        e.value_ = value
  ["to_string", ic]           e.to_string(intelligent_choice=ic)
  ["deepcopy"]                e = copy.deepcopy(e); continue on the copy
"""
import copy

from hypothesis import strategies as st

from . import driver
from .driver import call, py_name, stub
from .oracle import lexical
from .oracle.schema import parikh, schema

STRUCT_OPS = ('add', 'add_fwd', 'add_nested', 'replace_self', 'remove', 'remove_nonchild', 'remove_grandchild', 'remove_elsewhere', 'replace', 'replace_fn', 'replace_nonchild', 'dot_inst',
              'dot_val', 'dot_none')
# integers beyond the range of a double: whatever the library answers, it must be one of its documented answers
EXTREME = [10 ** 400, -10 ** 400]
FOREIGN_POOL = ['pitch', 'words', 'p', 'step', 'measure', 'note', 'work', 'credit', 'staff', 'f']


def nested_child(name):
    """a CHECKED child with its required attributes that holds one child of its own (the first symbol of its alphabet
    that it accepts); a plain checked child when it cannot have children"""
    r = call(driver.fresh, name, True, True)
    if not r.ok:
        return stub(name)       # construction problems are other properties' subject
    c = r.value
    s = schema()
    t = s.element_type[name]
    if s.content_kind(t) == 'elements':
        for a in s.alphabet(t):
            if call(c.add_child, stub(a)).ok:
                break
    return c


def _bystander_state(x):
    ro, ru = call(x.get_children, True), call(x.get_children, False)
    # getters only: a to_string() here would be an operation the twin never performs
    return ([id(c) for c in (ro.value or [])] if ro.ok else ro.etype, [id(c) for c in (ru.value or [])] if ru.ok else ru.etype,
            [c.get_parent() is x for c in (ru.value or [])] if ru.ok else None)


class Run:
    def __init__(self, el, checked=True, attrs=True):
        self.el = el
        s = schema()
        self.tkey = s.element_type[el]
        self.dfa = s.dfa(self.tkey) if s.content_kind(self.tkey) == 'elements' else None
        self.alphabet = s.alphabet(self.tkey) if self.dfa is not None else []
        r = call(driver.fresh, el, checked, attrs)
        self.construct = r
        self.e = r.value if r.ok else None
        self.model = []       # children currently held (reference list, insertion order)
        self.labels = {}      # id(obj) -> label
        self.keep = []        # keep every object alive so ids stay unique
        self.gone = []        # removed / replaced-out children
        self.results = []     # per op: (verdict, site, printed)
        self.ops = []
        self.flags = set()    # classification labels of what happened
        self.leaf_counts = self._leaf_counts()
        self.side_effects = []    # what a call did to an element other than self.e

    def _leaf_counts(self):
        c = {}
        if self.dfa is not None:
            for l in schema().particle(self.tkey).leaves():
                c[l.name] = c.get(l.name, 0) + 1
        return c

    # -- helpers ----------------------------------------------------------------------------
    def _new(self, name, idx, factory=stub):
        c = factory(name)
        self.labels[id(c)] = 'k%d:%s' % (idx, name)
        self.keep.append(c)
        return c

    def label(self, obj):
        return self.labels.get(id(obj), 'foreign:%s' % getattr(obj, 'name', type(obj).__name__))

    def names(self):
        return [c.name for c in self.model]

    def first_named(self, name):
        for c in self.model:
            if c.name == name:
                return c
        return None

    # -- execution --------------------------------------------------------------------------
    def apply(self, op):
        """execute one op; update the reference model iff the call returned normally"""
        idx = len(self.ops)
        self.ops.append(op)
        k = op[0]
        e = self.e
        r = None
        if k == 'add' or k == 'add_fwd':
            c = self._new(op[1], idx)
            r = call(e.add_child, c) if k == 'add' else call(e.add_child, c, op[2])
            if r.ok:
                self.model.append(c)
                if k == 'add_fwd':
                    self.flags.add('fwd-ok')
        elif k == 'remove':
            if not self.model:
                return self._finish(op, None)
            c = self.model[op[1] % len(self.model)]
            r = call(e.remove, c)
            if r.ok:
                self.model.remove(c)
                self.gone.append(c)
                self.flags.add('removed')
        elif k == 'remove_nonchild':
            c = self._new(op[1], idx)
            r = call(e.remove, c)
        elif k == 'add_nested':
            c = self._new(op[1], idx, factory=nested_child)
            r = call(e.add_child, c)
            if r.ok:
                self.model.append(c)
                if call(c.get_children, False).value:
                    self.flags.add('nested')
        elif k == 'share_out':
            # the same child OBJECT is also added to a second parent of e's class (nothing forbids it)
            if not self.model:
                return self._finish(op, None)
            ro = call(driver.fresh, self.el, True, True)
            if not ro.ok:
                return self._finish(op, None)
            self.keep.append(ro.value)
            r = call(ro.value.add_child, self.model[op[1] % len(self.model)])
            self.flags.add('shared-child')
        elif k == 'add_again':
            # a child object that is already held is added once more
            if not self.model:
                return self._finish(op, None)
            c = self.model[op[1] % len(self.model)]
            r = call(e.add_child, c)
            if r.ok:
                self.model.append(c)
            self.flags.add('shared-child')
        elif k == 'remove_grandchild':
            cands = [c for c in self.model if call(c.get_children, False).value]
            if not cands:
                return self._finish(op, None)
            holder = cands[op[1] % len(cands)]
            before = _bystander_state(holder)
            r = call(e.remove, call(holder.get_children, False).value[0])
            self.flags.add('remove-grandchild')
            if not r.ok and _bystander_state(holder) != before:
                self.side_effects.append(['held child changed by failed remove of its child', idx])
        elif k == 'remove_elsewhere':
            ro = call(driver.fresh, self.el, True, True)
            if not ro.ok:
                return self._finish(op, None)
            other = ro.value
            c = self._new(op[1], idx)
            self.keep.append(other)
            if not call(other.add_child, c).ok:
                return self._finish(op, None)
            before = _bystander_state(other)
            r = call(e.remove, c)
            self.flags.add('remove-elsewhere')
            if not r.ok and _bystander_state(other) != before:
                self.side_effects.append(['bystander changed by failed remove of its child', idx])
        elif k == 'replace':
            if not self.model:
                return self._finish(op, None)
            i = op[1] % len(self.model)
            old = self.model[i]
            new = self._new(op[2], idx)
            r = call(e.replace_child, old, new)
            if r.ok:
                self.model[i] = new
                self.gone.append(old)
                self.flags.add('replaced')
        elif k == 'replace_fn':
            # replace_child(callable, new, index): the callable matches children by name; target = index-th match
            # in the schema-ordered view (as documented)
            names_ = set(op[1])
            ro = call(e.get_children, True)
            matches = [c for c in (ro.value if ro.ok else []) if c.name in names_]
            new = self._new(op[3], idx)
            r = call(e.replace_child, lambda ch: ch.name in names_, new, op[2])
            if r.ok and matches and -len(matches) <= op[2] < len(matches):
                old = matches[op[2]]
                if any(old is m for m in self.model):
                    self.model[[i for i, m in enumerate(self.model) if m is old][0]] = new
                    self.gone.append(old)
                    self.flags.add('replaced')
                else:
                    self.flags.add('replace-fn-target-unknown')
        elif k == 'replace_self':
            # a child is exchanged for ITSELF (replace_child(c, c), or xml_x = the child that is already there)
            if not self.model:
                return self._finish(op, None)
            c = self.model[op[1] % len(self.model)]
            if len(op) > 2 and op[2] and self.first_named(c.name) is c:
                r = call(setattr, e, 'xml_' + py_name(c.name), c)
            else:
                r = call(e.replace_child, c, c)
            self.flags.add('replace-self')
        elif k == 'replace_nonchild':
            old = self._new(op[1], idx)
            new = self._new(op[1], idx)
            r = call(e.replace_child, old, new)
        elif k == 'dot_inst':
            new = self._new(op[1], idx)
            found = self.first_named(op[1])
            r = call(setattr, e, 'xml_' + py_name(op[1]), new)
            if r.ok:
                if found is not None:
                    self.model[self.model.index(found)] = new
                    self.gone.append(found)
                    self.flags.add('replaced')
                else:
                    self.model.append(new)
        elif k == 'dot_val':
            found = self.first_named(op[1])
            before = None
            if found is None:
                r0 = call(e.get_children, False)
                before = list(r0.value) if r0.ok else None
            r = call(setattr, e, 'xml_' + py_name(op[1]), op[2])
            if r.ok and found is None:
                r1 = call(e.get_children, False)
                newc = [c for c in (r1.value if r1.ok else []) if before is None or all(c is not b for b in before)]
                if len(newc) == 1:
                    self.labels[id(newc[0])] = 'k%d:%s' % (idx, op[1])
                    self.keep.append(newc[0])
                    self.model.append(newc[0])
                else:
                    self.flags.add('dot-val-created-%d' % len(newc))
        elif k == 'dot_none':
            found = self.first_named(op[1])
            r = call(setattr, e, 'xml_' + py_name(op[1]), None)
            if r.ok and found is not None:
                self.model.remove(found)
                self.gone.append(found)
                self.flags.add('removed')
        elif k == 'set_attr':
            r = call(setattr, e, py_name(op[1].split(':')[-1]), op[2])
        elif k == 'set_attr_none':
            r = call(setattr, e, py_name(op[1].split(':')[-1]), None)
        elif k == 'set_value':
            r = call(setattr, e, 'value_', op[1])
        elif k == 'to_string':
            r = call(e.to_string, intelligent_choice=bool(op[1]))
            self.flags.add('serialised')
        elif k == 'skip':
            return self._finish(op, None)
        elif k == 'add_junk':
            junk = [42, 'a string', None, 3.5, [], {}][op[1] % 6]
            r = call(e.add_child, junk)
        elif k == 'read':
            r = call(getattr, e, op[1])
        elif k == 'set_check':
            r = call(setattr, e, 'xsd_check', bool(op[1]))
        elif k == 'set_raw':
            r = call(setattr, e, op[1], op[2])
        elif k == 'copy_discard':
            r = call(copy.deepcopy, e)
        elif k == 'deepcopy':
            r = call(copy.deepcopy, e)
            if r.ok:
                old_labels = [self.label(c) for c in (call(e.get_children, True).value or [])]
                self.e = r.value
                rc = call(self.e.get_children, False)
                kids = list(rc.value) if rc.ok else []
                self.model = kids
                for j, c in enumerate(kids):
                    src = old_labels[j] if j < len(old_labels) else '?'
                    self.labels[id(c)] = 'c%d/%s' % (idx, src)
                    self.keep.append(c)
                self.flags.add('copied')
        else:
            raise ValueError(op)
        return self._finish(op, r)

    def _finish(self, op, r):
        if r is None:
            self.results.append(('noop', None, ''))
            return None
        if not r.ok:
            self.flags.add('failed')
            if op[0] in STRUCT_OPS:
                self.flags.add('failed-struct')
        self.results.append((r.verdict(), r.site, (r.out + r.err)[:200]))
        return r

    def fork(self, drop_last=False):
        """new Run that continues on a deep copy of this run's element (the copy is taken from the LIVE object);
        drop_last: forget the parent's last op (its own 'copy_discard' marker) in the fork's bookkeeping"""
        other = Run.__new__(Run)
        other.__dict__.update(self.__dict__)
        other.model = list(self.model)
        other.labels = dict(self.labels)
        other.keep = list(self.keep)
        other.gone = list(self.gone)
        other.results = list(self.results)
        other.ops = list(self.ops)
        other.flags = set(self.flags)
        other.side_effects = list(self.side_effects)
        if drop_last:
            other.ops = other.ops[:-1]
            other.results = other.results[:-1]
        other.apply(['deepcopy'])
        return other

    # -- observation ------------------------------------------------------------------------
    def obs(self, with_string=True, ic=False):
        e = self.e
        o = {}
        r = call(e.get_children, True)
        o['ordered'] = [self.label(c) for c in r.value] if r.ok else 'ERR:' + r.etype
        r = call(e.get_children, False)
        o['unordered'] = [self.label(c) for c in r.value] if r.ok else 'ERR:' + r.etype
        kids = r.value if r.ok else []
        o['orphans'] = [self.label(c) for c in kids if call(c.get_parent).value is not e]
        o['attrs'] = {k: repr(v) for k, v in sorted(dict(e.attributes).items())}
        o['value'] = repr(e.value_)
        o['side_effects'] = list(self.side_effects)
        if with_string:
            o['string'] = self.string_verdict(ic)
        return o

    def string_verdict(self, ic=False):
        r = call(self.e.to_string, intelligent_choice=ic)
        if r.ok:
            return ['ok', r.value]
        msg = r.msg if r.etype in ('XMLElementChildrenRequired', 'XSDAttributeRequiredException') else ''
        return [r.etype, msg]


def replay(el, ops, checked=True, upto=None):
    run = Run(el, checked)
    if run.e is None:
        return run
    for op in ops[:upto]:
        run.apply(op)
    return run


# ----------------------------------------------------------------------------------------------
# adaptive generation
# ----------------------------------------------------------------------------------------------

def classify_symbols(run):
    """oracle view of every alphabet symbol against the children currently held:
    'prefix' (keeps the ordered word a schema prefix when appended), 'compatible' (only after re-ordering),
    'incompatible'"""
    dfa = run.dfa
    held = parikh(run.names())
    out = {'prefix': [], 'compatible': [], 'incompatible': []}
    arr = dfa.one_arrangement(held) if dfa.completable(held) else None
    st_ = dfa.run(arr) if arr is not None else None
    # 'prefix' judged on the held children taken in some valid arrangement of exactly those children when one
    # exists; otherwise only compatible / incompatible are distinguished
    for a in run.alphabet:
        h2 = dict(held)
        h2[a] = h2.get(a, 0) + 1
        if not dfa.completable(h2):
            out['incompatible'].append(a)
        elif st_ is not None and a in dfa.trans[st_]:
            out['prefix'].append(a)
        else:
            out['compatible'].append(a)
    return out


DEFAULT_WEIGHTS = {
    'add': 10, 'add_fwd': 2, 'remove': 3, 'remove_nonchild': 1, 'replace': 2, 'replace_fn': 1, 'replace_nonchild': 1,
    'dot_inst': 2, 'dot_val': 1, 'dot_none': 2, 'to_string': 2, 'deepcopy': 0, 'set_attr': 0, 'set_attr_none': 0,
    'set_value': 0, 'add_nested': 0, 'remove_grandchild': 0, 'remove_elsewhere': 0, 'share_out': 0, 'add_again': 0,
    'replace_self': 0,
}


def _weighted(data, weights):
    items = [(k, w) for k, w in weights.items() if w > 0]
    total = sum(w for _, w in items)
    x = data.draw(st.integers(0, total - 1))
    for k, w in items:
        if x < w:
            return k
        x -= w
    return items[-1][0]


def draw_symbol(data, run, bias=None):
    """draw a child name steered by the oracle's classes; returns (name, class)"""
    cl = classify_symbols(run)
    classes = [c for c in ('prefix', 'compatible', 'incompatible') if cl[c]]
    w = dict(bias or {'prefix': 6, 'compatible': 4, 'incompatible': 2, 'foreign': 1})
    opts = {c: w.get(c, 1) for c in classes}
    if w.get('foreign'):
        opts['foreign'] = w['foreign']
    c = _weighted(data, opts)
    if c == 'foreign':
        pool = [n for n in FOREIGN_POOL if n not in run.alphabet]
        return data.draw(st.sampled_from(pool)), 'foreign'
    return data.draw(st.sampled_from(cl[c])), c


def text_children(run):
    s = schema()
    return [a for a in run.alphabet if s.content_kind(s.element_type[a]) in ('simple', 'text')]


def draw_op(data, run, weights=None, sym_bias=None):
    w = dict(DEFAULT_WEIGHTS)
    if weights:
        w.update(weights)
    if not run.model:
        for k in ('remove', 'replace', 'replace_fn', 'share_out', 'add_again', 'replace_self'):
            w[k] = 0
    if not text_children(run):
        w['dot_val'] = 0
    k = _weighted(data, w)
    if k == 'add':
        n, c = draw_symbol(data, run, sym_bias)
        run.flags.add('offer-' + c)
        return ['add', n]
    if k == 'add_fwd':
        n, c = draw_symbol(data, run, {'prefix': 4, 'compatible': 4, 'incompatible': 2, 'foreign': 0})
        kmax = max(run.leaf_counts.get(n, 1) - 1, 0)
        # negative indices count the leaves from the end (documented range -len <= forward < len)
        return ['add_fwd', n, data.draw(st.integers(-kmax - 1, kmax))]
    if k == 'remove':
        return ['remove', data.draw(st.integers(0, len(run.model) - 1))]
    if k == 'remove_nonchild':
        return ['remove_nonchild', data.draw(st.sampled_from(run.alphabet))]
    if k == 'add_nested':
        n, c = draw_symbol(data, run, {'prefix': 6, 'compatible': 4, 'incompatible': 1, 'foreign': 0})
        return ['add_nested', n]
    if k == 'remove_grandchild':
        return ['remove_grandchild', data.draw(st.integers(0, 3))]
    if k in ('share_out', 'add_again'):
        return [k, data.draw(st.integers(0, max(len(run.model) - 1, 0)))]
    if k == 'replace_self':
        return [k, data.draw(st.integers(0, max(len(run.model) - 1, 0))), data.draw(st.integers(0, 1))]
    if k == 'remove_elsewhere':
        return ['remove_elsewhere', data.draw(st.sampled_from(run.alphabet))]
    if k == 'replace':
        i = data.draw(st.integers(0, len(run.model) - 1))
        if data.draw(st.integers(0, 2)) == 0:
            n = data.draw(st.sampled_from(run.alphabet))
        else:
            n = run.model[i].name
        return ['replace', i, n]
    if k == 'replace_fn':
        held = sorted(set(run.names()))
        names_ = sorted(set(data.draw(st.lists(st.sampled_from(held), min_size=1, max_size=3))))
        n_match = sum(1 for n in run.names() if n in names_)
        idx_ = data.draw(st.integers(-1, max(n_match - 1, 0)))
        newn = data.draw(st.sampled_from(names_)) if data.draw(st.integers(0, 3)) else \
            data.draw(st.sampled_from(run.alphabet))
        return ['replace_fn', names_, idx_, newn]
    if k == 'replace_nonchild':
        return ['replace_nonchild', data.draw(st.sampled_from(run.alphabet))]
    if k == 'dot_inst':
        n, c = draw_symbol(data, run, sym_bias)
        return ['dot_inst', n]
    if k == 'dot_val':
        n = data.draw(st.sampled_from(text_children(run)))
        s = schema()
        tt = s.text_type(s.element_type[n])
        good = data.draw(st.integers(0, 3)) > 0
        if good:
            txt = data.draw(st.sampled_from(lexical.valid_texts(tt)))
            ok, pv = lexical.python_value_for(tt, txt)
            if not ok:
                pv = txt
        else:
            bad = (lexical.invalid_texts(tt) or [3.5, -7]) + EXTREME
            pv = data.draw(st.sampled_from(bad))
        return ['dot_val', n, pv]
    if k == 'dot_none':
        held = sorted(set(run.names()))
        if held and data.draw(st.integers(0, 3)) > 0:
            return ['dot_none', data.draw(st.sampled_from(held))]
        return ['dot_none', data.draw(st.sampled_from(run.alphabet))]
    if k == 'to_string':
        return ['to_string', data.draw(st.integers(0, 1))]
    if k in ('set_attr', 'set_attr_none'):
        s = schema()
        attrs = s.attributes_of(run.tkey)
        undeclared = ['bogus', 'font_weird', 'number', 'placement', 'type', 'id', 'default_x', 'xml_bogus_child']
        if not attrs or data.draw(st.integers(0, 5)) == 0:
            q = data.draw(st.sampled_from(undeclared))
            if k == 'set_attr_none':
                return ['set_attr_none', q]
            return ['set_attr', q, data.draw(st.sampled_from(['x', 1, 'yes', 1.5]))]
        a = data.draw(st.sampled_from(attrs))
        if k == 'set_attr_none':
            return ['set_attr_none', a['qname']]
        if data.draw(st.integers(0, 3)) > 0:
            txt = data.draw(st.sampled_from(lexical.valid_texts(a['type'])))
            ok, pv = lexical.python_value_for(a['type'], txt)
            if not ok:
                pv = txt
            elif isinstance(pv, (int, float)) and not isinstance(pv, bool) and data.draw(st.integers(0, 3)) == 0:
                # a value that compares (and hashes) equal but has another type: 1 / 1.0 / True - whether it is
                # accepted must not depend on which spelling some element saw before
                alts = [float(pv)] if isinstance(pv, int) else ([int(pv)] if pv == int(pv) else [])
                if pv == 1:
                    alts.append(True)
                if pv == 0:
                    alts.append(False)
                if alts:
                    pv = data.draw(st.sampled_from(alts))
        else:
            pv = data.draw(st.sampled_from((lexical.invalid_texts(a['type']) or []) + [None, 2.5, -3, 'zzz'] + EXTREME))
            if pv is None:
                pv = []
        return ['set_attr', a['qname'], pv]
    if k == 'set_value':
        s = schema()
        tt = s.text_type(run.tkey)
        if tt is None:
            return ['set_value', data.draw(st.sampled_from(['', 'text', 1]))]
        if data.draw(st.integers(0, 2)) > 0:
            txt = data.draw(st.sampled_from(lexical.valid_texts(tt)))
            ok, pv = lexical.python_value_for(tt, txt)
            return ['set_value', pv if ok else txt]
        return ['set_value', data.draw(st.sampled_from((lexical.invalid_texts(tt) or []) + [2.5, -3, 'zzz'] + EXTREME))]
    if k == 'deepcopy':
        return ['deepcopy']
    raise ValueError(k)
