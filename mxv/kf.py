"""Known findings: committed list of genuine defects (open / fixed).  Never written at run time."""
import json
import os

from . import kfpred

ROOT = os.path.dirname(os.path.dirname(os.path.abspath(__file__)))
PATH = os.path.join(ROOT, 'known_findings.json')


def canon(x):
    return json.dumps(x, sort_keys=True, separators=(',', ':'), ensure_ascii=True)


def _strip(x, keys):
    if keys and isinstance(x, dict):
        return {k: v for k, v in x.items() if k not in keys}
    return x


class KnownFindings:
    def __init__(self, path=PATH):
        self.entries = []
        if os.path.exists(path):
            with open(path, encoding='utf-8') as f:
                self.entries = json.load(f)['findings']
        self._inputs = {}
        for e in self.entries:
            for prop, m in (e.get('match') or {}).items():
                ign = m.get('ignore_keys') or []
                if m.get('inputs_list') is not None:
                    self._inputs[(e['id'], prop)] = set(canon(_strip(x, ign)) for x in m['inputs_list'])
                fn = m.get('inputs')
                if fn:
                    s = set()
                    with open(os.path.join(ROOT, fn), encoding='utf-8') as f:
                        for line in f:
                            line = line.strip()
                            if line:
                                s.add(canon(_strip(json.loads(line), ign)))
                    self._inputs[(e['id'], prop)] = s

    def open_for(self, prop):
        return [e for e in self.entries if e['status'] == 'open' and prop in e['properties']]

    def fixed_for(self, prop):
        return [e for e in self.entries if e['status'] == 'fixed' and prop in e['properties']]

    def match(self, prop, failure):
        """id of the open entry this failure is attributed to, else None.
        All of kind, element type, (site) and the input predicate must match."""
        for e in self.entries:
            if e['status'] != 'open' or prop not in e['properties']:
                continue
            m = (e.get('match') or {}).get(prop)
            if m is None:
                continue
            kinds = m.get('kind')
            if kinds and failure.get('kind') not in kinds:
                continue
            types = m.get('type')
            if types and failure.get('type') not in types:
                continue
            sites = m.get('site')
            if sites and failure.get('site') not in sites:
                continue
            key = (e['id'], prop)
            if key in self._inputs and canon(_strip(failure.get('input'), m.get('ignore_keys') or [])) in \
                    self._inputs[key]:
                return e['id']
            pred = m.get('predicate')
            if pred:
                fn = getattr(kfpred, pred['name'])
                try:
                    if fn(failure, **pred.get('args', {})):
                        return e['id']
                except Exception:   # noqa: BLE001 - a predicate that cannot judge does not match
                    pass
            if key not in self._inputs and not pred:
                return e['id']
        return None
