"""input predicates for known findings beyond the exhaustive bound (see DESIGN 2.6)"""
import json


def word_longer_than(failure, n):
    """C02-style input {'element','word','path'}: the word lies beyond the completely enumerated length"""
    return len(failure['input']['word']) > n


def touches(failure, elements):
    """the input's element, or any symbol of its word / ops / plan, is one of the listed element names"""
    inp = failure['input']
    els = set(elements)
    if inp.get('element') in els:
        return True
    for a in inp.get('word', []) or []:
        if a in els:
            return True
    for op in inp.get('ops', []) or []:
        for x in op[1:]:
            if isinstance(x, str) and x in els:
                return True
    return False


def c05_date_shaped(failure):
    """the offered value is a date-shaped string (regular expression passes, calendar does not)"""
    import re
    v = failure['input'].get('value', '')
    return re.fullmatch(r"'-?\d{4,}-\d\d-\d\d[^']*'", v) is not None


def c05_class_is(failure, cls):
    return failure['input'].get('class') == cls


def c05_class_in(failure, classes):
    return failure['input'].get('class') in classes


def c04_attr_is(failure, attrs):
    """C04 input mentions one of the attribute names (pair layer: the attribute; history layer: any op on it)"""
    inp = failure['input']
    if inp.get('attribute') in attrs:
        return True
    return any(len(op) > 1 and op[1] in attrs for op in inp.get('ops', []))


def perm_longer_than(failure, n):
    return len(failure['input'].get('perm', [])) > n


def c08_only_stripped(failure):
    """the first difference is element text that differs only by surrounding white space, on an xs:string-typed
    element, in a document that was generated with surrounding white space"""
    o = failure['observed']
    if 'surrounding-whitespace' not in failure['input'].get('flags', []):
        return False
    t = o.get('text')
    return bool(t) and t[0] is not None and t[1] is not None and t[0] != t[1] and t[0].strip() == t[1]


def kind_type_pairs(failure, pairs):
    return [failure.get('kind'), failure.get('type')] in pairs


def c19_op_mentions(failure, names):
    """the op that raised (observed.op) names one of the given attributes"""
    op = (failure.get('observed') or {}).get('op') or []
    return len(op) > 1 and op[1] in names


def doc_has(failure, elements=(), attributes=()):
    """C09 (a): the generated document contains one of the element names / attribute names"""
    inp = failure['input']
    return bool(set(inp.get('elements', [])) & set(elements)) or bool(set(inp.get('attributes', [])) & set(attributes))


def c09_only_long_numbers(failure):
    """every missing / changed fact is a number with more than 15 significant digits (beyond double precision)"""
    o = failure.get('observed') or {}
    vals = []
    if 'missing' in o:
        for m in o['missing']:
            vals.append(m[-1])
    elif 'text' in o:
        vals.append('num:' + str(o['text'][0]).strip())
    elif 'values' in o:
        vals.append('num:' + str(o['values'][0]).strip())
    else:
        return False
    if not vals:
        return False
    for v in vals:
        if not isinstance(v, str) or not v.startswith('num:'):
            return False
        digits = [c for c in v[4:] if c.isdigit()]
        if len(''.join(digits).strip('0')) <= 15:
            return False
    return True


_C02_BAD = {}


def _c02_bad_words(type_):
    """failing child words of one matcher type, as enumerated for C02 (kf/C02-<type>.jsonl)"""
    if type_ not in _C02_BAD:
        import json as _json
        import os as _os
        root = _os.path.dirname(_os.path.dirname(_os.path.abspath(__file__)))
        words = set()
        path = _os.path.join(root, 'kf', 'C02-%s.jsonl' % type_)
        if _os.path.exists(path):
            with open(path, encoding='utf-8') as f:
                for line in f:
                    if line.strip():
                        words.add(tuple(_json.loads(line)['word']))
        _C02_BAD[type_] = words
    return _C02_BAD[type_]


def c09_doc_has_known_bad_word(failure, type_, elements, bound):
    """C09 (a): some node of the document whose element belongs to the matcher type carries a child word that is
    one of the exactly enumerated failing words of that type (or is longer than the enumeration bound)"""
    plan = failure['input'].get('plan')
    if plan is None:
        return False
    bad = _c02_bad_words(type_)
    stack = [plan]
    while stack:
        n = stack.pop()
        kids = n.get('kids', [])
        if n.get('element') in elements:
            w = tuple(k['element'] for k in kids)
            if w in bad or len(w) > bound:
                return True
        stack.extend(kids)
    return False


def c16_stale_required_repaired(failure):
    """C16: the twin WITHOUT the intermediate serialisations ends with a missing-children verdict, the one WITH them
    serialises, the script removed a child and contains a to_string(intelligent_choice=True): the intelligent-choice
    pass repaired a stale 'required' mark left by remove()"""
    o = failure.get('observed') or {}
    script = failure['input'].get('script', [])
    plan = failure['input'].get('plan', {})
    removed = any(st[0] == 'mut' and st[1][0] == 'remove' for st in script) or bool(plan.get('readd'))
    ic = any(st[0] == 'ser' and st[2] for st in script)
    return removed and ic and isinstance(o.get('without'), str) and 'requires at least following children' in o['without'] \
        and isinstance(o.get('with'), str) and o['with'].lstrip().startswith('<')


# ops that neither detach a child nor exchange one: after them a twice-added child's single back-pointer is never consulted
_SHARE_SAFE_OPS = ('add', 'add_fwd', 'add_again', 'add_nested', 'to_string', 'set_attr', 'set_attr_none', 'set_value')


def history_shares_child_object(failure):
    """the history hands one child OBJECT to two parents (share_out), or twice to the same parent (add_again) AND
    later detaches / exchanges / dot-assigns something - the operations that go through the child's single
    back-pointer.  A history that only keeps adding (and serialising) after an add_again is not this finding."""
    ops = [op for op in failure['input'].get('ops', []) if op]
    if any(op[0] == 'share_out' for op in ops):
        return True
    for i, op in enumerate(ops):
        if op[0] == 'add_again':
            return any(o[0] not in _SHARE_SAFE_OPS for o in ops[i + 1:])
    return False


_C11_STALE = None


def c11_stale_known(failure, max_adds=3):
    """KF-R-stale-required: inside the bound 'k adds (k<=max_adds) then one removal' (judged on the effective history
    the check attaches as failure['norm']) only the exactly enumerated (type, history) pairs of
    kf/C11-stale-required.jsonl are the known finding; beyond the bound every stale-required verdict is"""
    global _C11_STALE
    norm = failure.get('norm')
    if not norm:
        return True
    ops = norm['ops']
    inside = 2 <= len(ops) <= max_adds + 1 and all(o[0] == 'add' for o in ops[:-1]) and ops[-1][0] == 'remove'
    if not inside:
        return True
    if _C11_STALE is None:
        import os
        path = os.path.join(os.path.dirname(os.path.dirname(os.path.abspath(__file__))), 'kf', 'C11-stale-required.jsonl')
        with open(path, encoding='utf-8') as f:
            _C11_STALE = set(line.strip() for line in f if line.strip())
    return json.dumps({'type': norm['type'], 'ops': ops}, sort_keys=True) in _C11_STALE


_C12_REJ = None


def c12_rejection_known(failure, max_held=3):
    """KF-M-compatible-child-rejected: with at most max_held children held, only the exactly enumerated
    (type, held children in acceptance order, refused child) triples of kf/C12-compatible-child-rejected.jsonl are the
    known finding; with more children held every such refusal on these types is"""
    global _C12_REJ
    norm = failure.get('norm')
    if not norm:
        return True
    if len(norm['held']) > max_held:
        return True
    if _C12_REJ is None:
        import os
        path = os.path.join(os.path.dirname(os.path.dirname(os.path.abspath(__file__))), 'kf',
                            'C12-compatible-child-rejected.jsonl')
        with open(path, encoding='utf-8') as f:
            _C12_REJ = set(line.strip() for line in f if line.strip())
    return json.dumps({'type': norm['type'], 'held': norm['held'], 'rejected': norm['rejected']}, sort_keys=True) in _C12_REJ


def c14_stale_required_original(failure):
    """C14, second copy after mutating the original: the ORIGINAL answers with a missing-children message after a
    removal (the stale mark of KF-R-stale-required) while the freshly rebuilt copy serialises or words the message
    afresh"""
    o = failure.get('observed') or {}
    inp = failure['input']
    removed = any(m and m[0] == 'remove' for m in inp.get('mutations', []) + (inp.get('mutations2') or [])) or bool(inp.get('plan', {}).get('readd'))
    return bool(o.get('second copy after mutating the original')) and removed and \
        isinstance(o.get('original'), str) and 'requires at least following children' in o['original']
