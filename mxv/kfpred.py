"""input predicates for known findings beyond the exhaustive bound (see DESIGN 2.6)"""


def word_longer_than(failure, n):
    """C02-style input {'element','word','path'}: the word lies beyond the completely enumerated length"""
    return len(failure['input']['word']) > n


def touches(failure, elements):
    """the input's element, or any symbol of its word / ops / plan, is one of the listed element names"""
    inp = failure['input']
    els = set(elements)
    if inp.get('element') in els:
        return True
    for a in inp.get('word', []) or []:
        if a in els:
            return True
    for op in inp.get('ops', []) or []:
        for x in op[1:]:
            if isinstance(x, str) and x in els:
                return True
    return False
