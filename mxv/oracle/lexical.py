"""XSD simple-type lexical spaces, read from the pinned schema (independent of the library).

``valid(type, text)``: is ``text`` (after the type's whiteSpace normalisation) in the lexical
space?  Built-ins are coded from XML Schema Part 2; name classes use the *permissive* XML 1.0
5th-edition productions, so a text this module rejects is outside every edition.

Generators return finite sample lists (deterministic); Hypothesis strategies built on top of them
live in mxv/gen.py.
"""
import datetime
import re
from decimal import Decimal, InvalidOperation

from .schema import XS, schema

NAME_START = (':A-Z_a-z\u00C0-\u00D6\u00D8-\u00F6\u00F8-\u02FF\u0370-\u037D\u037F-\u1FFF\u200C-\u200D'
              '\u2070-\u218F\u2C00-\u2FEF\u3001-\uD7FF\uF900-\uFDCF\uFDF0-\uFFFD\U00010000-\U000EFFFF')
NAME_CHAR = NAME_START + '\\-.0-9\u00B7\u0300-\u036F\u203F-\u2040'
NC_START = NAME_START[1:]
NC_CHAR = NC_START + '\\-.0-9\u00B7\u0300-\u036F\u203F-\u2040'
# characters certainly outside every edition's NameChar (for negative samples)
NON_NAME_CHARS = ' ,;!?()[]{}<>&"\'/\\@#$%^*+=|~`'

RX_DECIMAL = re.compile(r'[+-]?(\d+(\.\d*)?|\.\d+)', re.ASCII)
RX_INTEGER = re.compile(r'[+-]?\d+', re.ASCII)
RX_DATE = re.compile(r'(-?)(\d{4,})-(\d\d)-(\d\d)(Z|[+-]\d\d:\d\d)?', re.ASCII)
RX_LANGUAGE_UNION = re.compile(r'([a-zA-Z]{1,8})(-[a-zA-Z0-9]{1,8})*|[iI]-[a-zA-Z]+(-[a-zA-Z]{1,8})*')
RX_LANGUAGE_STRICT = re.compile(r'[a-zA-Z]{2}(-[a-zA-Z]{1,8})*')
# strict name classes: characters that are name characters in BOTH the 4th and the 5th edition of XML 1.0
S_START = ':A-Z_a-z\u00C0-\u00D6\u00D8-\u00F6'
S_CHAR = S_START + '\\-.0-9'
RX_NMTOKEN_S = re.compile('[%s]+' % S_CHAR)
RX_NAME_S = re.compile('[%s][%s]*' % (S_START, S_CHAR))
RX_NCNAME_S = re.compile('[%s][%s]*' % (S_START[1:], S_CHAR[1:]))
RX_NMTOKEN = re.compile('[%s]+' % NAME_CHAR)
RX_NAME = re.compile('[%s][%s]*' % (NAME_START, NAME_CHAR))
RX_NCNAME = re.compile('[%s][%s]*' % (NC_START, NC_CHAR))

WS_COLLAPSE_RX = re.compile(r'[ \t\n\r]+')


def collapse(s):
    return WS_COLLAPSE_RX.sub(' ', s).strip(' ')


def translate_pattern(p, narrow=False):
    """XSD regex -> Python regex (only the constructs the pinned schema uses)."""
    if '\\p{' in p or '-[' in p or '\\I' in p or '\\C' in p or '\\w' in p or '\\s' in p:
        raise NotImplementedError(p)
    # \c / \i never occur inside a bracket expression in the pinned schema (asserted)
    depth = 0
    out = []
    i = 0
    while i < len(p):
        ch = p[i]
        if ch == '\\' and i + 1 < len(p):
            nx = p[i + 1]
            if nx in 'ci':
                if depth:
                    raise NotImplementedError(p)
                if narrow:
                    out.append('[A-Za-z0-9]' if nx == 'c' else '[A-Za-z]')
                else:
                    out.append('[%s]' % (NAME_CHAR if nx == 'c' else NAME_START))
            elif nx == 'd':
                out.append('0-9' if depth else '[0-9]') if narrow else out.append('\\d')
            else:
                out.append(ch + nx)
            i += 2
            continue
        if ch == '[':
            depth += 1
        elif ch == ']':
            depth -= 1
        elif ch in '^$' and not depth:
            out.append('\\' + ch)   # literal in XSD regexes
            i += 1
            continue
        out.append(ch)
        i += 1
    return ''.join(out)


INLINE_TYPES = {
    '#xml-space': {'base': 'xs:NCName', 'enum': ['default', 'preserve']},
    '#xlink-type': {'base': 'xs:token', 'enum': ['simple']},
    '#xlink-show': {'base': 'xs:token', 'enum': ['new', 'replace', 'embed', 'other', 'none']},
    '#xlink-actuate': {'base': 'xs:token', 'enum': ['onRequest', 'onLoad', 'other', 'none']},
}

BUILTIN_BASE = {
    'xs:string': None, 'xs:token': 'xs:string', 'xs:NMTOKEN': 'xs:token', 'xs:Name': 'xs:token',
    'xs:NCName': 'xs:Name', 'xs:ID': 'xs:NCName', 'xs:IDREF': 'xs:NCName', 'xs:language': 'xs:token',
    'xs:decimal': None, 'xs:integer': 'xs:decimal', 'xs:nonNegativeInteger': 'xs:integer',
    'xs:positiveInteger': 'xs:nonNegativeInteger', 'xs:date': None, 'xs:anyURI': None,
}


class TypeInfo:
    """Flattened view of one simple type."""

    def __init__(self, name):
        self.name = name
        self.union = None        # list of member type names
        self.chain = []          # builtin ancestors incl. self if builtin, nearest first
        self.enums = []          # list of enumeration lists (one per restriction level that has some)
        self.patterns = []       # XSD pattern strings (each level ANDed)
        self.min_inc = self.max_inc = self.min_exc = self.max_exc = None
        self.min_length = None
        self.base = None

    @property
    def primitive(self):
        """'string' | 'decimal' | 'date' | 'anyURI' | 'union'"""
        if self.union is not None:
            return 'union'
        for b in self.chain:
            if b in ('xs:string',):
                return 'string'
            if b == 'xs:decimal':
                return 'decimal'
            if b == 'xs:date':
                return 'date'
            if b == 'xs:anyURI':
                return 'anyURI'
        raise RuntimeError(self.name)

    @property
    def is_integer(self):
        return 'xs:integer' in self.chain

    @property
    def whitespace(self):
        if self.union is not None:
            return 'union'
        if 'xs:token' in self.chain or self.primitive != 'string':
            return 'collapse'
        return 'preserve'

    @property
    def enumeration(self):
        """effective enumeration (intersection over levels) or None"""
        if not self.enums:
            return None
        cur = list(self.enums[0])
        for e in self.enums[1:]:
            cur = [x for x in cur if x in e]
        return cur


_INFO = {}


def info(tname):
    if tname in _INFO:
        return _INFO[tname]
    s = schema()
    ti = TypeInfo(tname)
    if tname in BUILTIN_BASE:
        cur = tname
        while cur is not None:
            ti.chain.append(cur)
            cur = BUILTIN_BASE[cur]
        ti.base = BUILTIN_BASE[tname]
    elif tname in INLINE_TYPES:
        d = INLINE_TYPES[tname]
        b = info(d['base'])
        ti.chain = list(b.chain)
        ti.enums = [list(d['enum'])]
        ti.base = d['base']
    else:
        node = s.simple[tname]
        un = node.find(XS + 'union')
        if un is not None:
            members = (un.get('memberTypes') or '').split()
            for k, st in enumerate(un.findall(XS + 'simpleType')):
                anon = '%s#%d' % (tname, k)
                r = st.find(XS + 'restriction')
                INLINE_TYPES[anon] = {'base': r.get('base'),
                                      'enum': [e.get('value') for e in r.findall(XS + 'enumeration')]}
                members.append(anon)
            ti.union = members
        else:
            r = node.find(XS + 'restriction')
            b = info(r.get('base'))
            ti.base = r.get('base')
            if b.union is not None:
                raise NotImplementedError('restriction of union ' + tname)
            ti.chain = list(b.chain)
            ti.enums = [list(e) for e in b.enums]
            ti.patterns = list(b.patterns)
            ti.min_inc, ti.max_inc, ti.min_exc, ti.max_exc = b.min_inc, b.max_inc, b.min_exc, b.max_exc
            ti.min_length = b.min_length
            en = [e.get('value') for e in r.findall(XS + 'enumeration')]
            if en:
                ti.enums.append(en)
            for f in r:
                t = f.tag.replace(XS, '')
                v = f.get('value')
                if t == 'pattern':
                    ti.patterns.append(v)
                elif t == 'minInclusive':
                    ti.min_inc = Decimal(v) if ti.min_inc is None else max(ti.min_inc, Decimal(v))
                elif t == 'maxInclusive':
                    ti.max_inc = Decimal(v) if ti.max_inc is None else min(ti.max_inc, Decimal(v))
                elif t == 'minExclusive':
                    ti.min_exc = Decimal(v) if ti.min_exc is None else max(ti.min_exc, Decimal(v))
                elif t == 'maxExclusive':
                    ti.max_exc = Decimal(v) if ti.max_exc is None else min(ti.max_exc, Decimal(v))
                elif t == 'minLength':
                    ti.min_length = int(v)
                elif t in ('enumeration', 'annotation'):
                    pass
                else:
                    raise NotImplementedError('facet %s on %s' % (t, tname))
    _INFO[tname] = ti
    return ti


def all_simple_type_names():
    """145 schema types + the built-ins the schema uses"""
    return sorted(schema().simple) + sorted(BUILTIN_BASE)


def _valid_builtin(b, t, strict=False):
    if strict:
        if b == 'xs:NMTOKEN':
            return RX_NMTOKEN_S.fullmatch(t) is not None
        if b == 'xs:Name':
            return RX_NAME_S.fullmatch(t) is not None
        if b in ('xs:NCName', 'xs:ID', 'xs:IDREF'):
            return RX_NCNAME_S.fullmatch(t) is not None
        if b == 'xs:language':
            return RX_LANGUAGE_STRICT.fullmatch(t) is not None
    if b == 'xs:decimal':
        return RX_DECIMAL.fullmatch(t) is not None
    if b == 'xs:integer':
        return RX_INTEGER.fullmatch(t) is not None
    if b == 'xs:nonNegativeInteger':
        return RX_INTEGER.fullmatch(t) is not None and (int(t) >= 0)
    if b == 'xs:positiveInteger':
        return RX_INTEGER.fullmatch(t) is not None and int(t) > 0
    if b == 'xs:date':
        m = RX_DATE.fullmatch(t)
        if not m:
            return False
        y, mo, d = int(m.group(2)), int(m.group(3)), int(m.group(4))
        if y == 0:
            return False
        if len(m.group(2)) > 4 and m.group(2)[0] == '0':
            return False
        try:
            datetime.date(2000 if y % 400 == 0 else (1900 if y % 100 == 0 else (2004 if y % 4 == 0 else 2001)), mo, d)
        except ValueError:
            return False
        tz = m.group(5)
        if tz and tz != 'Z':
            hh, mm = int(tz[1:3]), int(tz[4:6])
            if hh > 14 or mm > 59 or (hh == 14 and mm != 0):
                return False
        return True
    if b == 'xs:NMTOKEN':
        return RX_NMTOKEN.fullmatch(t) is not None
    if b == 'xs:Name':
        return RX_NAME.fullmatch(t) is not None
    if b in ('xs:NCName', 'xs:ID', 'xs:IDREF'):
        return RX_NCNAME.fullmatch(t) is not None
    if b == 'xs:language':
        return RX_LANGUAGE_UNION.fullmatch(t) is not None
    return True   # xs:string, xs:token, xs:anyURI: every (normalised) string


def normalise(tname, text):
    ti = info(tname)
    if ti.union is not None:
        return text
    return collapse(text) if ti.whitespace == 'collapse' else text


def valid(tname, text, strict=False):
    """text in the lexical space of tname (after whiteSpace processing)?
    strict=False: permissive reading (union of the editions' name classes / language patterns) - a text this rejects
    is invalid under every reading; strict=True: intersection - a text this accepts is valid under every reading."""
    ti = info(tname)
    if ti.union is not None:
        return any(valid(m, text, strict) for m in ti.union)
    t = normalise(tname, text)
    for b in ti.chain:
        if not _valid_builtin(b, t, strict):
            return False
    en = ti.enumeration
    if en is not None and t not in en:
        return False
    for p in ti.patterns:
        if re.fullmatch(translate_pattern(p, narrow=strict), t, re.DOTALL) is None:
            return False
    if ti.min_length is not None and len(t) < ti.min_length:
        return False
    if ti.primitive == 'decimal':
        try:
            v = Decimal(t)
        except InvalidOperation:
            return False
        if ti.min_inc is not None and v < ti.min_inc:
            return False
        if ti.max_inc is not None and v > ti.max_inc:
            return False
        if ti.min_exc is not None and v <= ti.min_exc:
            return False
        if ti.max_exc is not None and v >= ti.max_exc:
            return False
    return True


def accepts_text(tname):
    """True iff the lexical space contains some non-empty string -- always, for these types"""
    return True


# ----------------------------------------------------------------------------------------------
# sample generators (deterministic lists)
# ----------------------------------------------------------------------------------------------

_PATTERN_SAMPLES = {
    r'#[\dA-F]{6}([\dA-F][\dA-F])?': ['#000000', '#FFFFFF', '#800080', '#40800080', '#A1B2C3D4'],
    r'[^,]+(, ?[^,]+)*': ['Arial', 'Times New Roman', 'Arial, sans-serif', 'a,b', 'a, b,c', 'x'],
    r'(acc|medRenFla|medRenNatura|medRenShar|kievanAccidental)(\c+)':
        ['accidentalSharp', 'accX', 'medRenFlatSoftB', 'medRenNaturaL', 'medRenSharpCroix',
         'kievanAccidentalSharp', 'acc1'],
    r'coda\c*': ['coda', 'codaSquare', 'coda1'],
    r'lyrics\c+': ['lyricsElision', 'lyricsX', 'lyrics1'],
    r'pict\c+': ['pictGlsp', 'pictX'],
    r'segno\c*': ['segno', 'segnoSerpent1'],
    r'(wiggle\c+)|(guitar\c*VibratoStroke)': ['wiggleTrill', 'guitarVibratoStroke', 'guitarWideVibratoStroke',
                                               'wiggleX'],
    r'[1-9][0-9]*(, ?[1-9][0-9]*)*': ['1', '2', '10', '1,2', '1, 2', '1, 2,30'],
    r'[^:Z]*': None,   # yyyy-mm-dd: handled by the date generator
    r'([ ]*)|([1-9][0-9]*(, ?[1-9][0-9]*)*)': ['', '1', '1, 2', '1,2,3', '12'],
}

_BUILTIN_SAMPLES = {
    'xs:string': ['', 'a', 'hello world', ' lead', 'trail ', 'two  spaces', 'Ünïcødé ♯', 'tab\there', 'x' * 50],
    'xs:token': ['a', 'hello world', 'x-y_z', 'Ünï'],
    'xs:NMTOKEN': ['a', 'abc', 'a-b', 'a.b', '1a', 'A_1', '-x'],
    'xs:Name': ['a', 'abc', '_a', 'a-b', 'a.b1'],
    'xs:NCName': ['a', 'abc', '_a', 'a-b', 'a.b1', 'P1'],
    'xs:ID': ['a', 'P1', '_id', 'id-1.x'],
    'xs:IDREF': ['a', 'P1', '_id'],
    'xs:language': ['en', 'de', 'en-US', 'fr-CA', 'zh-Hant'],
    'xs:decimal': ['0', '1', '-1', '1.5', '-0.25', '100', '12345.678', '0.001'],
    'xs:integer': ['0', '1', '-1', '42', '-100', '123456789012', '9007199254740993', '-9007199254740993',
                   '18446744073709551617'],
    'xs:nonNegativeInteger': ['0', '1', '42', '123456789012', '9007199254740993', '18446744073709551617'],
    'xs:positiveInteger': ['1', '2', '42', '123456789012', '9007199254740993', '18446744073709551617'],
    'xs:date': ['2024-01-31', '1999-12-01', '2000-02-29', '0001-01-01', '-0044-03-15', '12024-01-01', '-12024-06-30',
                '2024-01-31Z', '2024-01-31+02:00', '2024-01-31-14:00'],
    'xs:anyURI': ['a.png', 'http://example.org/x', 'file.xml#frag', 'dir/file'],
}

_BUILTIN_NEG = {
    'xs:NMTOKEN': ['', 'a b', 'a,b', 'x!'],
    'xs:Name': ['', '1a', 'a b', '-a', 'a,b'],
    'xs:NCName': ['', '1a', 'a b', '-a', 'a:b', 'a,b'],
    'xs:ID': ['', '1a', 'a b', 'a:b'],
    'xs:IDREF': ['', '1a', 'a b', 'a:b'],
    'xs:language': ['', 'e n', '-', 'en_US', '123456789', 'en-', 'en--US'],
    'xs:decimal': ['', 'a', '1e5', '1,5', '--1', '1.2.3', 'NaN', 'INF', '.', '+', '0x10'],
    'xs:integer': ['', 'a', '1.0', '1.5', '1e3', '--1', '1 2'],
    'xs:nonNegativeInteger': ['', '-1', '1.0', 'a', '-100'],
    'xs:positiveInteger': ['', '0', '-1', '1.0', 'a'],
    'xs:date': ['', '2024-13-01', '2024-02-30', '24-01-01', '2024-1-1', '2024/01/01', '2023-02-29', '0000-01-01',
                '2024-01-01T00:00:00', '-0044-02-30', '02024-01-01', '12024-02-30', '2024-01-31+14:01', '2024-01-31z',
                '+2024-01-31'],
    'xs:string': [], 'xs:token': [], 'xs:anyURI': [],
}


def _dec_str(d):
    s = format(d, 'f')
    return s


def valid_texts(tname, limit=40):
    """deterministic list of texts in the (normalised) lexical space; every entry is re-checked with valid()"""
    ti = info(tname)
    out = []
    if ti.union is not None:
        for m in ti.union:
            out.extend(valid_texts(m, limit=limit))
    else:
        en = ti.enumeration
        if en is not None:
            out = list(en)
        elif ti.primitive == 'decimal':
            cands = list(_BUILTIN_SAMPLES['xs:integer' if ti.is_integer else 'xs:decimal'])
            step = Decimal(1) if ti.is_integer else Decimal('0.5')
            for b in (ti.min_inc, ti.max_inc):
                if b is not None:
                    cands += [_dec_str(b), _dec_str(b + step), _dec_str(b - step)]
            for b in (ti.min_exc, ti.max_exc):
                if b is not None:
                    cands += [_dec_str(b + step), _dec_str(b - step), _dec_str(b)]
                    if not ti.is_integer:
                        cands += [_dec_str(b + Decimal('0.001')), _dec_str(b - Decimal('0.001'))]
            out = cands
        elif ti.primitive == 'date':
            out = list(_BUILTIN_SAMPLES['xs:date'])
        else:
            cands = []
            for p in ti.patterns:
                smp = _PATTERN_SAMPLES.get(p)
                if smp:
                    cands += smp
            if not ti.patterns:
                for b in ti.chain:
                    if b in _BUILTIN_SAMPLES:
                        cands += _BUILTIN_SAMPLES[b]
                        break
            out = cands
    seen = []
    for t in out:
        if t not in seen and valid(tname, t) and (info(tname).union is not None or normalise(tname, t) == t):
            seen.append(t)
    return seen[:limit] if limit else seen


def invalid_texts(tname, limit=30):
    """deterministic list of near-miss texts outside the lexical space (re-checked with valid())"""
    ti = info(tname)
    cands = []
    if ti.union is not None:
        for m in ti.union:
            cands += invalid_texts(m, limit=limit)
        cands += ['?', 'maybe', 'x y z']
    else:
        en = ti.enumeration
        if en is not None:
            for e in en[:4]:
                cands += [e + 'x', e.upper() if e.upper() != e else e.lower(), e[:-1] if len(e) > 1 else e + e]
            cands += ['', 'zzz-not-a-literal', '?']
            # literals of sibling enumerations
            cands += ['yes', 'no', 'above', 'below', 'start', 'stop', 'up', 'down', 'left', 'right', 'normal']
        elif ti.primitive == 'decimal':
            cands += _BUILTIN_NEG['xs:integer' if ti.is_integer else 'xs:decimal']
            step = Decimal(1) if ti.is_integer else Decimal('0.001')
            for b in (ti.min_inc,):
                if b is not None:
                    cands += [_dec_str(b - step), _dec_str(b - 1000)]
            for b in (ti.max_inc,):
                if b is not None:
                    cands += [_dec_str(b + step), _dec_str(b + 1000)]
            for b in (ti.min_exc,):
                if b is not None:
                    cands += [_dec_str(b), _dec_str(b - step)]
            for b in ti.chain:
                cands += _BUILTIN_NEG.get(b, [])
        elif ti.primitive == 'date':
            cands += _BUILTIN_NEG['xs:date'] + ['2024-01-01Z', '2024-01-01+01:00']
        else:
            for b in ti.chain:
                cands += _BUILTIN_NEG.get(b, [])
            for v in valid_texts(tname, limit=6):
                cands += [v + ',', ',' + v, v + ' !', v.lower() if v.lower() != v else v.upper(), v[1:], v + ':']
            cands += ['', ',', '#12', '#GGGGGG', '#1234567', '0', '01', '1,,2', 'coda!', 'wiggle']
    seen = []
    for t in cands:
        if t not in seen and not valid(tname, t):
            seen.append(t)
    return seen[:limit] if limit else seen


# ----------------------------------------------------------------------------------------------
# Python-side representations
# ----------------------------------------------------------------------------------------------

def python_value_for(tname, text):
    """The Python representation the API documents for a lexical form of this type:
    integer types -> int, decimal types -> int when integral else float, string types -> str.
    For unions: the representation of the first member whose lexical space contains the text.
    Returns (ok, value); ok False when no faithful representation is defined (then not asserted)."""
    ti = info(tname)
    if ti.union is not None:
        for m in ti.union:
            if valid(m, text):
                return python_value_for(m, text)
        return False, None
    if ti.primitive == 'decimal':
        t = collapse(text)
        if ti.is_integer:
            return True, int(t)
        d = Decimal(t)
        if d == d.to_integral_value() and '.' not in t:
            return True, int(d)
        digits = len(d.as_tuple().digits)
        if digits > 6:
            return False, None
        return True, float(t)
    return True, text


def member_for_python_value(tname, v):
    """For emission checks: is there *some* documented reading of python value v for this type?
    Not used as an oracle; kept for classification."""
    return type(v).__name__


def self_test():
    assert valid('yes-no', 'yes') and not valid('yes-no', 'Yes') and valid('yes-no', ' yes ')
    assert valid('mute', 'on') and not valid('mute', ' on')      # xs:string based: whitespace preserved
    assert valid('percent', '0') and valid('percent', '100') and valid('percent', '99.5')
    assert not valid('percent', '100.001') and not valid('percent', '-0.1') and not valid('percent', '1e1')
    assert valid('positive-decimal', '0.001') and not valid('positive-decimal', '0')
    assert valid('positive-divisions', '1') and not valid('positive-divisions', '0') \
        and not valid('positive-divisions', '-1')
    assert valid('color', '#800080') and valid('color', '#40800080') and not valid('color', '#80008')
    assert not valid('color', '#80008g') and not valid('color', '800080')
    assert valid('octave', '0') and valid('octave', '9') and not valid('octave', '10') and not valid('octave', '4.0')
    assert valid('font-size', '12') and valid('font-size', 'xx-small') and valid('font-size', '10.5')
    assert not valid('font-size', 'huge')
    assert valid('number-or-normal', 'normal') and valid('number-or-normal', '1.5')
    assert valid('positive-integer-or-empty', '') and valid('positive-integer-or-empty', '3')
    assert not valid('positive-integer-or-empty', '0')
    assert valid('yes-no-number', 'no') and valid('yes-no-number', '-3.5') and not valid('yes-no-number', 'nope')
    assert valid('comma-separated-text', 'a, b') and not valid('comma-separated-text', 'a,,b')
    assert valid('time-only', '1, 2') and not valid('time-only', '0') and not valid('time-only', '1,,2') and valid('time-only', '1,  2')
    assert valid('ending-number', '') and valid('ending-number', '1, 2') and valid('ending-number', '   ')
    assert valid('yyyy-mm-dd', '2024-02-29') and not valid('yyyy-mm-dd', '2023-02-29')
    assert not valid('yyyy-mm-dd', '2024-02-29Z')
    assert valid('xs:date', '2024-02-29Z')
    assert valid('smufl-coda-glyph-name', 'coda') and valid('smufl-coda-glyph-name', 'codaSquare')
    assert not valid('smufl-coda-glyph-name', 'cod') and not valid('smufl-coda-glyph-name', 'coda x')
    assert valid('smufl-lyrics-glyph-name', 'lyricsElision') and not valid('smufl-lyrics-glyph-name', 'lyrics')
    assert valid('measure-text', 'x') and not valid('measure-text', '') and not valid('measure-text', '  ')
    assert valid('xs:NCName', 'a-b') and not valid('xs:NCName', 'a:b') and not valid('xs:NCName', '1a')
    assert valid('xs:ID', 'P1') and not valid('xs:ID', '')
    assert valid('xs:language', 'en-US') and not valid('xs:language', 'en_US')
    assert valid('#xml-space', 'preserve') and not valid('#xml-space', 'yes')
    assert valid('xs:positiveInteger', '+5') and not valid('xs:positiveInteger', '0')
    assert valid('trill-beats', '2') and not valid('trill-beats', '1.99')
    assert valid('fermata-shape', '') and valid('fermata-shape', 'angled')
    assert valid('tenths', '-12.5') and valid('divisions', '3')
    assert info('note-type-value').enumeration and 'quarter' in info('note-type-value').enumeration
    assert valid('system-relation', 'none') and valid('system-relation-number', 'also-top')
    assert not valid('system-relation', 'also-bottom') and valid('system-relation-number', 'also-bottom')
    assert valid('swing-type-value', 'eighth') and not valid('swing-type-value', 'quarter')
    n = 0
    for t in all_simple_type_names():
        vs = valid_texts(t)
        assert vs, t
        n += len(vs)
        for x in invalid_texts(t):
            assert not valid(t, x)
    assert python_value_for('tenths', '1.5') == (True, 1.5) and python_value_for('tenths', '3') == (True, 3)
    assert python_value_for('octave', '4') == (True, 4)
    assert python_value_for('font-size', 'small') == (True, 'small')
    assert python_value_for('font-size', '12') == (True, 12)
    return n


if __name__ == '__main__':
    print('lexical ok', self_test(), len(all_simple_type_names()))
