"""Independent reading of the pinned MusicXML 4.0 schema.

Imports nothing from the library under test.  Everything is derived from
``pinned/musicxml_4_0.xsd`` with xml.etree only:

* particle trees and DFAs for the content model of every complex type,
* attribute tables (attributeGroup references resolved transitively),
* element name -> type bindings for the partwise document tree.

The DFA operations (accepts / enumerate / arrangements / completable ...) are the
oracles used by the property checks.
"""
import functools
import hashlib
import heapq
import os
import xml.etree.ElementTree as ET
from collections import deque

XS = '{http://www.w3.org/2001/XMLSchema}'
HERE = os.path.dirname(os.path.abspath(__file__))
PINNED = os.path.join(HERE, 'pinned', 'musicxml_4_0.xsd')
XML_NS = 'http://www.w3.org/XML/1998/namespace'
XLINK_NS = 'http://www.w3.org/1999/xlink'

UNB = None  # maxOccurs="unbounded"


def pinned_sha256():
    with open(PINNED, 'rb') as f:
        return hashlib.sha256(f.read()).hexdigest()


def check_pin():
    with open(PINNED + '.sha256', encoding='ascii') as f:
        want = f.read().split()[0]
    got = pinned_sha256()
    if want != got:
        raise RuntimeError('pinned schema hash mismatch: %s != %s' % (got, want))


# ----------------------------------------------------------------------------------------------
# particles
# ----------------------------------------------------------------------------------------------

class P:
    """Particle: kind in {'elem','seq','choice'}; min in {0,1}; max int or None(unbounded)."""
    __slots__ = ('kind', 'name', 'min', 'max', 'kids', 'type')

    def __init__(self, kind, name=None, mn=1, mx=1, kids=(), type_=None):
        self.kind = kind
        self.name = name
        self.min = mn
        self.max = mx
        self.kids = list(kids)
        self.type = type_

    def __repr__(self):
        occ = '' if (self.min, self.max) == (1, 1) else '{%s,%s}' % (self.min, '*' if self.max is None else self.max)
        if self.kind == 'elem':
            return self.name + occ
        sep = ' ' if self.kind == 'seq' else ' | '
        return '(' + sep.join(map(repr, self.kids)) + ')' + occ

    def leaves(self):
        if self.kind == 'elem':
            yield self
        else:
            for k in self.kids:
                yield from k.leaves()


def _occ(node):
    mn = node.get('minOccurs')
    mx = node.get('maxOccurs')
    mn = 1 if mn is None else int(mn)
    mx = 1 if mx is None else (UNB if mx == 'unbounded' else int(mx))
    return mn, mx


class Schema:
    def __init__(self, path=PINNED):
        self.path = path
        self.root = ET.parse(path).getroot()
        self.complex = {}     # type key -> ET node
        self.simple = {}      # name -> ET node
        self.groups = {}
        self.attgroups = {}
        for c in self.root:
            t = c.tag.replace(XS, '')
            n = c.get('name')
            if t == 'complexType':
                self.complex[n] = c
            elif t == 'simpleType':
                self.simple[n] = c
            elif t == 'group':
                self.groups[n] = c
            elif t == 'attributeGroup':
                self.attgroups[n] = c
        # anonymous complex types of the partwise tree + directive
        sp = [e for e in self.root.findall(XS + 'element') if e.get('name') == 'score-partwise'][0]
        self.complex['#score-partwise'] = sp.find(XS + 'complexType')
        part = [e for e in self.complex['#score-partwise'].iter(XS + 'element') if e.get('name') == 'part'][0]
        self.complex['#part'] = part.find(XS + 'complexType')
        meas = [e for e in self.complex['#part'].iter(XS + 'element') if e.get('name') == 'measure'][0]
        self.complex['#measure'] = meas.find(XS + 'complexType')
        direc = [e for e in self.complex['attributes'].iter(XS + 'element') if e.get('name') == 'directive'][0]
        self.complex['#directive'] = direc.find(XS + 'complexType')
        self._particle_cache = {}
        self._dfa_cache = {}
        self._attr_cache = {}
        self.element_type = self._element_types()

    # -- element bindings -------------------------------------------------------------------
    def _element_types(self):
        """name -> type key for every element reachable in the partwise schema."""
        out = {'score-partwise': '#score-partwise', 'part': '#part', 'measure': '#measure',
               'directive': '#directive'}
        timewise = [e for e in self.root.findall(XS + 'element') if e.get('name') == 'score-timewise'][0]
        skip = set(id(e) for e in timewise.iter(XS + 'element'))
        self.declarations = 0
        for e in self.root.iter(XS + 'element'):
            if id(e) in skip:
                continue
            n = e.get('name')
            if n is None:
                continue
            self.declarations += 1
            t = e.get('type')
            if t is None:
                if n not in out:
                    raise RuntimeError('anonymous type for unexpected element ' + n)
                continue
            if n in out and out[n] != t:
                raise RuntimeError('element %s declared with two types' % n)
            out[n] = t
        return out

    def is_simple_type_name(self, t):
        return t.startswith('xs:') or t in self.simple

    # -- content models ---------------------------------------------------------------------
    def _particle_of(self, node):
        """node is an xs:sequence / xs:choice / xs:group / xs:element."""
        t = node.tag.replace(XS, '')
        mn, mx = _occ(node)
        if t == 'element':
            return P('elem', node.get('name'), mn, mx, type_=node.get('type'))
        if t == 'group':
            g = self.groups[node.get('ref')]
            inner = [c for c in g if c.tag in (XS + 'sequence', XS + 'choice')]
            assert len(inner) == 1
            ip = self._particle_of(inner[0])
            return P('seq', None, mn, mx, [ip])
        kids = [self._particle_of(c) for c in node
                if c.tag in (XS + 'sequence', XS + 'choice', XS + 'group', XS + 'element')]
        return P('seq' if t == 'sequence' else 'choice', None, mn, mx, kids)

    def particle(self, tkey):
        """Content particle of a complex type (None when the type has no element content)."""
        if tkey in self._particle_cache:
            return self._particle_cache[tkey]
        ct = self.complex[tkey]
        res = None
        cc = ct.find(XS + 'complexContent')
        if cc is not None:
            ext = cc.find(XS + 'extension')
            base = self.particle(ext.get('base'))
            own = [c for c in ext if c.tag in (XS + 'sequence', XS + 'choice', XS + 'group')]
            parts = ([base] if base is not None else []) + [self._particle_of(o) for o in own]
            if parts:
                res = parts[0] if len(parts) == 1 else P('seq', None, 1, 1, parts)
        elif ct.find(XS + 'simpleContent') is None:
            own = [c for c in ct if c.tag in (XS + 'sequence', XS + 'choice', XS + 'group')]
            if own:
                assert len(own) == 1
                res = self._particle_of(own[0])
        self._particle_cache[tkey] = res
        return res

    def element_content_types(self):
        return [k for k in self.complex if self.particle(k) is not None and list(self.particle(k).leaves())]

    def simple_content_base(self, tkey):
        ct = self.complex[tkey]
        sc = ct.find(XS + 'simpleContent')
        if sc is None:
            return None
        return sc.find(XS + 'extension').get('base')

    def content_kind(self, tkey):
        """'simple' (simple type name), 'text' (complex with simpleContent), 'elements', 'empty'."""
        if tkey not in self.complex:
            return 'simple'
        if self.simple_content_base(tkey):
            return 'text'
        p = self.particle(tkey)
        if p is not None and list(p.leaves()):
            return 'elements'
        return 'empty'

    def text_type(self, tkey):
        """simple type governing the character content (None when none permitted)."""
        if tkey not in self.complex:
            return tkey
        return self.simple_content_base(tkey)

    def dfa(self, tkey):
        if tkey not in self._dfa_cache:
            p = self.particle(tkey)
            self._dfa_cache[tkey] = DFA.from_particle(p) if p is not None else None
        return self._dfa_cache[tkey]

    def alphabet(self, tkey):
        p = self.particle(tkey)
        seen = []
        for l in p.leaves():
            if l.name not in seen:
                seen.append(l.name)
        return seen

    def child_type(self, tkey, name):
        """type key of child element ``name`` (all elements of one name share one type)."""
        return self.element_type[name]

    # -- attributes -------------------------------------------------------------------------
    def _attrs_from(self, node):
        out = []
        for c in node:
            if c.tag == XS + 'attribute':
                out.append(self._attr(c))
            elif c.tag == XS + 'attributeGroup':
                out.extend(self._attrs_from(self.attgroups[c.get('ref')]))
        return out

    @staticmethod
    def _attr(a):
        ref = a.get('ref')
        req = a.get('use') == 'required'
        if ref:
            return {'qname': ref, 'type': REF_ATTR_TYPES[ref], 'required': req, 'fixed': REF_ATTR_FIXED.get(ref)}
        return {'qname': a.get('name'), 'type': a.get('type'), 'required': req, 'fixed': a.get('fixed')}

    def attributes_of(self, tkey):
        if tkey in self._attr_cache:
            return self._attr_cache[tkey]
        if tkey not in self.complex:
            res = []
        else:
            ct = self.complex[tkey]
            sc = ct.find(XS + 'simpleContent')
            cc = ct.find(XS + 'complexContent')
            if sc is not None:
                res = self._attrs_from(sc.find(XS + 'extension'))
            elif cc is not None:
                ext = cc.find(XS + 'extension')
                res = list(self.attributes_of(ext.get('base'))) + self._attrs_from(ext)
            else:
                res = self._attrs_from(ct)
        self._attr_cache[tkey] = res
        return res

    def attgroup_attributes(self, name):
        return self._attrs_from(self.attgroups[name])


# attributes referenced from the xml: and xlink: namespaces (XML 1.0 / XLink 1.1 recommendations;
# the types are those of the xml.xsd / xlink.xsd distributed with MusicXML 4.0)
REF_ATTR_TYPES = {
    'xml:lang': 'xs:language',
    'xml:space': '#xml-space',
    'xlink:href': 'xs:anyURI',
    'xlink:type': '#xlink-type',
    'xlink:role': 'xs:token',
    'xlink:title': 'xs:token',
    'xlink:show': '#xlink-show',
    'xlink:actuate': '#xlink-actuate',
}
REF_ATTR_FIXED = {'xlink:type': 'simple'}


def clark(qname):
    """'xml:lang' -> '{http://www.w3.org/XML/1998/namespace}lang' (etree attribute key)."""
    if qname.startswith('xml:'):
        return '{%s}%s' % (XML_NS, qname[4:])
    if qname.startswith('xlink:'):
        return '{%s}%s' % (XLINK_NS, qname[6:])
    return qname


# ----------------------------------------------------------------------------------------------
# automata
# ----------------------------------------------------------------------------------------------

class _NFA:
    def __init__(self):
        self.eps = []
        self.tr = []

    def new(self):
        self.eps.append([])
        self.tr.append([])
        return len(self.eps) - 1

    def build(self, p, s):
        """add automaton for particle p starting at state s; returns end state"""
        def once(s0):
            if p.kind == 'elem':
                e = self.new()
                self.tr[s0].append((p.name, e))
                return e
            if p.kind == 'seq':
                cur = s0
                for k in p.kids:
                    cur = self.build(k, cur)
                return cur
            e = self.new()
            if not p.kids:
                self.eps[s0].append(e)
            for k in p.kids:
                a = self.new()
                self.eps[s0].append(a)
                b = self.build(k, a)
                self.eps[b].append(e)
            return e

        cur = s
        for _ in range(p.min):
            cur = once(cur)
        if p.max is None:
            a = self.new()
            self.eps[cur].append(a)
            b = once(a)
            self.eps[b].append(a)
            e = self.new()
            self.eps[a].append(e)
            return e
        ends = [cur]
        for _ in range(p.max - p.min):
            a = self.new()
            self.eps[cur].append(a)
            cur = once(a)
            ends.append(cur)
        e = self.new()
        for x in ends:
            self.eps[x].append(e)
        return e

    def closure(self, states):
        st = set(states)
        stack = list(states)
        while stack:
            x = stack.pop()
            for y in self.eps[x]:
                if y not in st:
                    st.add(y)
                    stack.append(y)
        return frozenset(st)


class DFA:
    """Trimmed, minimised DFA.  trans: list of dict sym->state; state 0 initial."""

    def __init__(self, trans, accepting):
        self.trans = trans
        self.accepting = frozenset(accepting)
        self.alphabet = sorted({a for t in trans for a in t})
        self._arr_cache = {}
        self._comp_cache = {}
        self._mindist = None

    @classmethod
    def from_particle(cls, p):
        n = _NFA()
        s = n.new()
        e = n.build(p, s)
        start = n.closure([s])
        ids = {start: 0}
        trans = [dict()]
        acc = set()
        q = deque([start])
        while q:
            S = q.popleft()
            i = ids[S]
            if e in S:
                acc.add(i)
            moves = {}
            for x in S:
                for a, y in n.tr[x]:
                    moves.setdefault(a, set()).add(y)
            for a in sorted(moves):
                T = n.closure(moves[a])
                if T not in ids:
                    ids[T] = len(trans)
                    trans.append(dict())
                    q.append(T)
                trans[i][a] = ids[T]
        return cls(trans, acc)._trim()._minimise()

    def _trim(self):
        n = len(self.trans)
        rev = [[] for _ in range(n)]
        for i, t in enumerate(self.trans):
            for a, j in t.items():
                rev[j].append(i)
        live = set(self.accepting)
        st = list(live)
        while st:
            x = st.pop()
            for y in rev[x]:
                if y not in live:
                    live.add(y)
                    st.append(y)
        if 0 not in live:
            return DFA([dict()], [])
        order = [i for i in range(n) if i in live]
        ren = {o: k for k, o in enumerate(order)}
        trans = [{a: ren[j] for a, j in self.trans[o].items() if j in live} for o in order]
        return DFA(trans, [ren[a] for a in self.accepting if a in live])

    def _minimise(self):
        n = len(self.trans)
        part = [1 if i in self.accepting else 0 for i in range(n)]
        while True:
            sig = {}
            newp = []
            for i in range(n):
                key = (part[i], tuple(sorted((a, part[j]) for a, j in self.trans[i].items())))
                if key not in sig:
                    sig[key] = len(sig)
                newp.append(sig[key])
            if len(set(newp)) == len(set(part)):
                part = newp
                break
            part = newp
        # renumber so that the initial state is 0, BFS order
        rep = {}
        for i in range(n):
            rep.setdefault(part[i], i)
        order = []
        seen = {part[0]}
        q = deque([part[0]])
        while q:
            b = q.popleft()
            order.append(b)
            for a in sorted(self.trans[rep[b]]):
                nb = part[self.trans[rep[b]][a]]
                if nb not in seen:
                    seen.add(nb)
                    q.append(nb)
        ren = {b: k for k, b in enumerate(order)}
        trans = [{a: ren[part[j]] for a, j in self.trans[rep[b]].items()} for b in order]
        acc = [ren[part[i]] for i in self.accepting]
        return DFA(trans, acc)

    # -- basic -------------------------------------------------------------------------------
    def run(self, word, state=0):
        for a in word:
            state = self.trans[state].get(a)
            if state is None:
                return None
        return state

    def accepts(self, word):
        s = self.run(word)
        return s is not None and s in self.accepting

    def is_prefix(self, word):
        return self.run(word) is not None  # trimmed: every state is live

    def n_transitions(self):
        return sum(len(t) for t in self.trans)

    def enumerate(self, max_len, cap=None):
        """all accepted words of length <= max_len, shortest first (lexicographic on sorted symbols)."""
        out = []
        frontier = [((), 0)]
        for L in range(max_len + 1):
            nxt = []
            for w, s in frontier:
                if s in self.accepting:
                    out.append(w)
                    if cap is not None and len(out) >= cap:
                        return out
                if L < max_len:
                    for a in sorted(self.trans[s]):
                        nxt.append((w + (a,), self.trans[s][a]))
            frontier = nxt
        return out

    def count_words(self, max_len):
        cnt = {0: 1}
        total = 0
        for L in range(max_len + 1):
            total += sum(c for s, c in cnt.items() if s in self.accepting)
            nc = {}
            for s, c in cnt.items():
                for a, j in self.trans[s].items():
                    nc[j] = nc.get(j, 0) + c
            cnt = nc
        return total

    def min_dist(self):
        """shortest distance from each state to acceptance"""
        if self._mindist is None:
            n = len(self.trans)
            d = [None] * n
            rev = [[] for _ in range(n)]
            for i, t in enumerate(self.trans):
                for a, j in t.items():
                    rev[j].append(i)
            q = deque()
            for a in self.accepting:
                d[a] = 0
                q.append(a)
            while q:
                x = q.popleft()
                for y in rev[x]:
                    if d[y] is None:
                        d[y] = d[x] + 1
                        q.append(y)
            self._mindist = d
        return self._mindist

    def shortest_completion(self, state):
        d = self.min_dist()
        w = []
        while state not in self.accepting:
            for a in sorted(self.trans[state]):
                j = self.trans[state][a]
                if d[j] == d[state] - 1:
                    w.append(a)
                    state = j
                    break
        return w

    def cycle_transitions(self):
        """set of (state, sym) that lie on a cycle"""
        n = len(self.trans)
        reach = []
        for i in range(n):
            seen = set()
            st = [i]
            while st:
                x = st.pop()
                for j in self.trans[x].values():
                    if j not in seen:
                        seen.add(j)
                        st.append(j)
            reach.append(seen)
        return {(i, a) for i in range(n) for a, j in self.trans[i].items() if i in reach[j] or i == j}

    def access_words(self):
        """shortest word reaching each state"""
        acc = {0: ()}
        q = deque([0])
        while q:
            s = q.popleft()
            for a in sorted(self.trans[s]):
                j = self.trans[s][a]
                if j not in acc:
                    acc[j] = acc[s] + (a,)
                    q.append(j)
        return acc

    def switch_cover(self):
        """accepted words covering every pair of consecutive transitions (s -a-> t -b-> u)."""
        acc = self.access_words()
        out = set()
        for s in range(len(self.trans)):
            for a, t in self.trans[s].items():
                w1 = acc[s] + (a,)
                out.add(w1 + tuple(self.shortest_completion(t)))
                for b, u in self.trans[t].items():
                    out.add(w1 + (b,) + tuple(self.shortest_completion(u)))
        return sorted(out)

    # -- multiset oracles -------------------------------------------------------------------
    def arrangements(self, counts, limit=2):
        """number (capped at ``limit``) of accepted words whose Parikh image is exactly ``counts``
        (dict name->n).  Exact DP, no enumeration caps other than the explicit limit."""
        names = tuple(sorted(k for k, v in counts.items() if v))
        vec = tuple(counts[k] for k in names)
        for k in names:
            if k not in self.alphabet:
                return 0

        @functools.lru_cache(maxsize=None)
        def go(state, rem):
            if not any(rem):
                return 1 if state in self.accepting else 0
            tot = 0
            for i, k in enumerate(names):
                if rem[i]:
                    j = self.trans[state].get(k)
                    if j is not None:
                        tot += go(j, rem[:i] + (rem[i] - 1,) + rem[i + 1:])
                        if tot >= limit:
                            return limit
            return tot

        return go(0, vec)

    def one_arrangement(self, counts):
        """some accepted word with exactly that Parikh image, or None"""
        names = tuple(sorted(k for k, v in counts.items() if v))
        vec = tuple(counts[k] for k in names)
        for k in names:
            if k not in self.alphabet:
                return None

        @functools.lru_cache(maxsize=None)
        def go(state, rem):
            if not any(rem):
                return () if state in self.accepting else None
            for i, k in enumerate(names):
                if rem[i]:
                    j = self.trans[state].get(k)
                    if j is not None:
                        r = go(j, rem[:i] + (rem[i] - 1,) + rem[i + 1:])
                        if r is not None:
                            return (k,) + r
            return None

        return go(0, vec)

    def completable(self, counts):
        """True iff some accepted word has a Parikh image >= counts."""
        names = tuple(sorted(k for k, v in counts.items() if v))
        for k in names:
            if k not in self.alphabet:
                return False
        vec = tuple(counts[k] for k in names)
        key = (names, vec)
        if key in self._comp_cache:
            return self._comp_cache[key]
        idx = {k: i for i, k in enumerate(names)}
        # search over (state, still-needed vector) with dominance pruning: at one DFA state a vector that is
        # componentwise <= another makes the other redundant (every path from the larger is a path from the smaller
        # with a smaller-or-equal remainder), so only an antichain of minimal vectors is kept per state.
        best = {0: [vec]}
        q = [(sum(vec), 0, 0, vec)]
        tick = 0
        res = False
        while q:
            _, _, s, rem = heapq.heappop(q)
            if rem not in best.get(s, ()):
                continue   # superseded by a dominating vector
            if not any(rem):
                res = True   # trimmed DFA: every state can reach acceptance
                break
            for a, j in self.trans[s].items():
                i = idx.get(a)
                if i is not None and rem[i]:
                    nr = rem[:i] + (rem[i] - 1,) + rem[i + 1:]
                else:
                    nr = rem
                cur = best.setdefault(j, [])
                if any(all(x <= y for x, y in zip(o, nr)) for o in cur):
                    continue
                cur[:] = [o for o in cur if not all(x <= y for x, y in zip(nr, o))]
                cur.append(nr)
                tick += 1
                heapq.heappush(q, (sum(nr), tick, j, nr))
        self._comp_cache[key] = res
        return res

    def completion_of(self, counts):
        """shortest accepted word with Parikh image >= counts, or None"""
        names = tuple(sorted(k for k, v in counts.items() if v))
        for k in names:
            if k not in self.alphabet:
                return None
        vec = tuple(counts[k] for k in names)
        idx = {k: i for i, k in enumerate(names)}
        start = (0, vec)
        prev = {start: None}
        q = deque([start])
        while q:
            cur = q.popleft()
            s, rem = cur
            if not any(rem) and s in self.accepting:
                w = []
                while prev[cur] is not None:
                    cur, a = prev[cur]
                    w.append(a)
                return tuple(reversed(w))
            for a in sorted(self.trans[s]):
                j = self.trans[s][a]
                i = idx.get(a)
                if i is not None and rem[i]:
                    nr = rem[:i] + (rem[i] - 1,) + rem[i + 1:]
                else:
                    nr = rem
                st = (j, nr)
                if st not in prev:
                    prev[st] = (cur, a)
                    q.append(st)
        return None

    # -- comparison -------------------------------------------------------------------------
    def difference_witness(self, other):
        """shortest word accepted by exactly one of self/other, or None when equivalent."""
        start = (0, 0)
        prev = {start: None}
        q = deque([start])
        syms = sorted(set(self.alphabet) | set(other.alphabet))
        while q:
            cur = q.popleft()
            a_, b_ = cur
            acc_a = a_ is not None and a_ in self.accepting
            acc_b = b_ is not None and b_ in other.accepting
            if acc_a != acc_b:
                w = []
                while prev[cur] is not None:
                    cur, s = prev[cur]
                    w.append(s)
                return tuple(reversed(w))
            for s in syms:
                na = self.trans[a_].get(s) if a_ is not None else None
                nb = other.trans[b_].get(s) if b_ is not None else None
                if na is None and nb is None:
                    continue
                st = (na, nb)
                if st not in prev:
                    prev[st] = (cur, s)
                    q.append(st)
        return None


def parikh(word):
    c = {}
    for a in word:
        c[a] = c.get(a, 0) + 1
    return c


_SCHEMA = None


def schema():
    global _SCHEMA
    if _SCHEMA is None:
        check_pin()
        _SCHEMA = Schema()
    return _SCHEMA


# ----------------------------------------------------------------------------------------------
# self test (hand-written expectations; failure = harness error, never a violation)
# ----------------------------------------------------------------------------------------------

def self_test():
    s = schema()
    d = s.dfa('pitch')
    assert d.accepts(('step', 'octave')) and d.accepts(('step', 'alter', 'octave'))
    assert not d.accepts(('step',)) and not d.accepts(('octave', 'step')) and not d.accepts(())
    assert not d.accepts(('step', 'alter', 'alter', 'octave'))
    n = s.dfa('note')
    assert n.accepts(('grace', 'pitch'))
    assert n.accepts(('pitch', 'duration'))
    assert n.accepts(('chord', 'pitch', 'duration', 'tie', 'tie'))
    assert n.accepts(('cue', 'rest', 'duration'))
    assert n.accepts(('grace', 'cue', 'unpitched'))
    assert not n.accepts(('pitch',))
    assert not n.accepts(('cue', 'pitch', 'duration', 'tie'))
    assert not n.accepts(('pitch', 'duration', 'tie', 'tie', 'tie'))
    assert not n.accepts(('pitch', 'rest', 'duration'))
    assert n.accepts(('pitch', 'duration', 'beam') + ('beam',) * 7)
    assert not n.accepts(('pitch', 'duration') + ('beam',) * 9)
    assert n.accepts(('pitch', 'duration', 'lyric', 'lyric', 'lyric', 'listen'))
    assert n.arrangements({'pitch': 1, 'duration': 1, 'voice': 1}) == 1
    assert n.completable({'tie': 2, 'grace': 1})
    assert not n.completable({'tie': 3})
    assert not n.completable({'pitch': 1, 'rest': 1})
    dy = s.dfa('dynamics')
    assert dy.accepts(()) and dy.accepts(('p', 'f', 'p'))
    assert dy.arrangements({'p': 1, 'f': 1}) == 2
    h = s.dfa('harmony')
    assert h.accepts(('root', 'kind', 'root', 'kind'))
    assert not h.accepts(('root',))
    pl = s.dfa('part-list')
    assert pl.accepts(('score-part',)) and pl.accepts(('part-group', 'score-part', 'part-group'))
    assert not pl.accepts(('part-group',)) and not pl.accepts(())
    sp = s.dfa('#score-partwise')
    assert sp.accepts(('part-list', 'part')) and not sp.accepts(('part', 'part-list'))
    assert sp.accepts(('work', 'identification', 'part-list', 'part', 'part'))
    m = s.dfa('#measure')
    assert m.accepts(()) and m.accepts(('note', 'backup', 'note', 'barline'))
    assert s.element_type['pitch'] == 'pitch' and s.element_type['octave'] == 'octave'
    assert s.element_type['display-octave'] == 'octave'
    assert s.content_kind('empty') == 'empty' and s.content_kind('pitch') == 'elements'
    assert s.content_kind('formatted-text') == 'text' and s.content_kind('octave') == 'simple'
    at = {a['qname']: a for a in s.attributes_of('note')}
    assert 'default-x' in at and 'print-leger' in at and 'id' in at and 'font-family' in at
    assert at['dynamics']['type'] == 'non-negative-decimal' and not at['dynamics']['required']
    at = {a['qname']: a for a in s.attributes_of('#measure')}
    assert at['number']['required'] and at['number']['type'] == 'xs:token'
    at = {a['qname']: a for a in s.attributes_of('lyric-language')}
    assert at['xml:lang']['required'] and at['xml:lang']['type'] == 'xs:language'
    at = {a['qname']: a for a in s.attributes_of('formatted-text')}
    assert 'xml:space' in at and 'xml:lang' in at and 'justify' in at
    at = {a['qname']: a for a in s.attributes_of('heel-toe')}   # complexContent extension of empty-placement
    assert 'substitution' in at and 'placement' in at and 'default-x' in at
    assert len(s.element_content_types()) == 94, len(s.element_content_types())
    assert len(s.element_type) == 441, len(s.element_type)
    return True


if __name__ == '__main__':
    self_test()
    s = schema()
    big = sorted(((len(s.dfa(t).trans), t) for t in s.element_content_types()), reverse=True)[:5]
    print('ok', big, s.declarations)
