"""C01 - whenever to_string() returns, every checked element's child sequence is a word of its content model."""
import itertools
import xml.etree.ElementTree as ET

from hypothesis import strategies as st

from .. import gen
from ..driver import call
from ..history import Run, draw_op, replay
from ..oracle.schema import schema
from ..run import hyp_search, mix

RULE = ('shared child objects: for every type and every child symbol, a checked child holding one child of its own is '
        'also given to a second parent (or to the same one twice) and then removed / unset / replaced; '
        '(a) bounded-exhaustive: ALL histories of <=3 ops (quick; <=4 thorough for small alphabets) over add / '
        'remove / dot-None / to_string on a deterministic symbol subset of every type; (b) Hypothesis-drawn adaptive '
        'histories (1-12 ops quick, 1-30 thorough) over the full op set (add, forward add, remove, replace same/other '
        'name, dot instance/value/None, non-child misuse, to_string with both intelligent_choice values), next symbol '
        'steered by the oracle class (prefix / compatible after re-ordering / incompatible / foreign); (c) nested '
        'documents of checked children built by their own short histories.  Verdict only when to_string() returns: '
        'the output is parsed with xml.etree and the child-tag word of every checked node must be accepted by the '
        'oracle DFA.  Non-trivial = to_string returned with >=2 children and the history contains an op other than an '
        'in-schema-order add; distinct by (element, executed ops).')
ASSUMPTIONS = ['unchecked stub children are exempt nodes (their own content is not judged)']
EXHAUSTIVE = False


def verify_output(run, text, nested=None):
    """failure detail or None.  nested: dict id(child obj) -> Run for checked children"""
    try:
        root = ET.fromstring(text)
    except ET.ParseError as ex:
        return 'output-not-well-formed', str(ex)
    return _verify_node(run, root, nested or {})


def _verify_node(run, node, nested):
    word = tuple(c.tag for c in node)
    s = schema()
    if run.dfa is None:
        if word:
            return 'children-on-childless-type', list(word)
    elif not run.dfa.accepts(word):
        return 'invalid-child-sequence', {'element': run.el, 'word': list(word)}
    if nested:
        r = call(run.e.get_children, True)
        kids = r.value if r.ok else []
        if len(kids) == len(node):
            for obj, sub in zip(kids, node):
                sr = nested.get(id(obj))
                if sr is not None:
                    bad = _verify_node(sr, sub, nested)
                    if bad:
                        return bad
    return None


def F(run, kind, observed, site=None):
    return {'kind': kind, 'type': run.tkey, 'site': site,
            'input': {'element': run.el, 'ops': run.ops}, 'observed': observed,
            'expected': 'every serialised child sequence is a word of the content model'}


def in_order_add_only(run):
    if any(op[0] != 'add' for op in run.ops):
        return False
    if any(v[0] != 'ok' for v in run.results):
        return False
    return run.dfa is not None and run.dfa.is_prefix(tuple(op[1] for op in run.ops))


# besides the default mix: checked children with content of their own, and child objects that are also given to a
# second parent (nothing forbids it) before being removed / replaced here
RANDOM_WEIGHTS = {'add_nested': 2, 'share_out': 1, 'add_again': 1}


def check_after(run, r, acc=None):
    """judge one returned to_string"""
    if r is None or not r.ok:
        return None
    bad = verify_output(run, r.value)
    if bad:
        return F(run, bad[0], bad[1])
    if 'nested' in run.flags:
        # checked children that hold children of their own (op add_nested): their part of the output is judged too
        bad = _verify_objects(run.e, ET.fromstring(r.value))
        if bad:
            return F(run, bad[0], bad[1])
    return None


def _verify_objects(obj, node):
    s = schema()
    word = tuple(c.tag for c in node)
    if getattr(obj, 'xsd_check', False) and node.tag in s.element_type:
        t = s.element_type[node.tag]
        if s.content_kind(t) == 'elements':
            if not s.dfa(t).accepts(word):
                return 'invalid-child-sequence', {'element': node.tag, 'word': list(word), 'nested': True}
        elif word:
            return 'children-on-childless-type', {'element': node.tag, 'word': list(word)}
    r = call(obj.get_children, True)
    kids = r.value if r.ok else []
    if len(kids) == len(node) and all(k.name == n.tag for k, n in zip(kids, node)):
        for k, n in zip(kids, node):
            bad = _verify_objects(k, n)
            if bad:
                return bad
    return None


def execute(el, ops, acc=None, final=True):
    """run a fixed history; returns first failure or None"""
    run = replay(el, [])
    if run.e is None:
        return run, None
    for op in ops:
        r = run.apply(op)
        if op[0] == 'to_string':
            f = check_after(run, r)
            if f:
                return run, f
    if final:
        for ic in (False, True):
            r = run.apply(['to_string', int(ic)])
            f = check_after(run, r)
            if f:
                return run, f
    return run, None


def replay_case(rec):
    inp = rec['input']
    if inp.get('nested'):
        return _replay_nested(inp)
    run, f = execute(inp['element'], [list(o) for o in inp['ops']], final=False)
    if run.e is None:
        return None
    return f


# ----------------------------------------------------------------------------------------------
# bounded-exhaustive tier
# ----------------------------------------------------------------------------------------------

def symbol_subset(tkey, k=5):
    """deterministic (seed-independent) subset of the alphabet: first, last and evenly spaced symbols"""
    al = schema().alphabet(tkey)
    if len(al) <= k:
        return al
    idx = sorted({round(i * (len(al) - 1) / (k - 1)) for i in range(k)})
    return [al[i] for i in idx]


def enum_histories(tkey, max_ops, k=5):
    """all op sequences of length 1..max_ops over add(a), remove(i), dot_none(a), to_string (both intelligent_choice
    values).  Sequences start with an
    add (anything else on an empty element is a no-op); remove(i) only for positions that can exist, dot_none(a) only
    for names that were added before (judged optimistically on the ops, not on their outcome)."""
    syms = symbol_subset(tkey, k)
    leafcount = {}
    for l in schema().particle(tkey).leaves():
        leafcount[l.name] = leafcount.get(l.name, 0) + 1
    # forward adds for names that have several leaves (the only case in which forward means anything)
    fwd = [['add_fwd', a, j] for a in syms if leafcount.get(a, 1) > 1 for j in range(min(leafcount[a], 3))]

    def rec(prefix, added, depth):
        if depth == 0:
            return
        cands = [['add', a] for a in syms] + fwd
        if added:
            cands += [['remove', i] for i in range(min(len(added), 3))]
            cands += [['dot_none', a] for a in sorted(set(added))]
            cands.append(['to_string', 0])
            cands.append(['to_string', 1])
        for op in cands:
            p = prefix + [op]
            yield p
            yield from rec(p, added + [op[1]] if op[0] in ('add', 'add_fwd') else added, depth - 1)

    yield from rec([], [], max_ops)


def enum_word_removals(tkey, max_len, cap):
    """valid words (all up to max_len, capped, plus the 2-switch cover up to length 8, which contains the repeated
    groups) added in document order, followed by the removal of each single child; for short words also every
    ordered pair of removals.  Targets remove() inside duplicated / nested particles with a seed-independent set."""
    dfa = schema().dfa(tkey)
    words = [w for w in dfa.enumerate(max_len, cap=cap) if len(w) >= 2]
    words += [w for w in dfa.switch_cover() if max_len < len(w) <= 8][:cap // 3]
    for w in words:
        adds = [['add', a] for a in w]
        for i in range(len(w)):
            yield adds + [['remove', i]]
            if len(w) <= 4:
                for j in range(len(w) - 1):
                    yield adds + [['remove', i], ['remove', j]]


def shared_child_histories(tkey):
    """a checked child with content of its own that is ALSO given to a second parent (or to this one twice) and
    then removed / unset / replaced here: for every symbol of the type"""
    for a in schema().alphabet(tkey):
        yield [['add_nested', a], ['share_out', 0], ['remove', 0]]
        yield [['add_nested', a], ['share_out', 0], ['dot_none', a]]
        yield [['add_nested', a], ['share_out', 0], ['replace', 0, a]]
        yield [['add_nested', a], ['add_again', 0], ['remove', 0], ['remove', 0]]
        yield [['add_nested', a], ['share_out', 0], ['to_string', 1], ['remove', 0]]


def shards(ctx):
    te = gen.types_and_elements()
    jobs = [{'mode': 'exh', 'types': part} for part in gen.chunk(te, 16)]
    for i in range(16):
        jobs.append({'mode': 'random', 'index': i})
    for i in range(8):
        jobs.append({'mode': 'nested', 'index': i})
    return jobs


def _account(acc, run, returned_children):
    nt = returned_children >= 2 and not in_order_add_only(run)
    acc.case({'element': run.el, 'ops': run.ops}, nt, len(run.ops))
    for fl in sorted(run.flags):
        acc.count(fl)


def run_shard(ctx, shard, acc):
    s = schema()
    if shard['mode'] == 'exh':
        for t, els in shard['types']:
            n = len(s.alphabet(t))
            depth = 3
            k = 8 if ctx.quick else 12
            if not ctx.quick and n <= 4:
                depth = 4
            for ops in itertools.chain(enum_histories(t, depth, k),
                                       enum_word_removals(t, 4, 150 if ctx.quick else 1500),
                                       shared_child_histories(t)):
                run, f = execute(els[0], ops, final=True)     # every history is followed by to_string(ic=0 and 1)
                if run.e is None:
                    break
                _account(acc, run, len(run.model))
                if f:
                    acc.fail(f, raise_=False)
        return
    te = gen.types_and_elements(all_elements=not ctx.quick)
    if shard['mode'] == 'random':
        maxops = 12 if ctx.quick else 30

        def body(data):
            t, els = data.draw(st.sampled_from(te))
            el = data.draw(st.sampled_from(els))
            run = Run(el)
            if run.e is None:
                return
            n = data.draw(st.integers(1, maxops))
            last_children = 0
            for _ in range(n):
                op = draw_op(data, run, RANDOM_WEIGHTS)
                r = run.apply(op)
                if op[0] == 'to_string' and r is not None and r.ok:
                    last_children = max(last_children, len(run.model))
                    f = check_after(run, r)
                    if f:
                        _account(acc, run, last_children)
                        acc.fail(f)
            for ic in (0, 1):
                r = run.apply(['to_string', ic])
                if r.ok:
                    last_children = max(last_children, len(run.model))
                    f = check_after(run, r)
                    if f:
                        _account(acc, run, last_children)
                        acc.fail(f)
            _account(acc, run, last_children)

        hyp_search(acc, body, mix(ctx.seed, 'C01', shard['index']), ctx.budget(700, 15000))
        return
    # nested documents
    def body(data):
        t, els = data.draw(st.sampled_from(te))
        el = data.draw(st.sampled_from(els))
        plan = draw_nested_plan(data, el, depth=data.draw(st.integers(1, 3)))
        f, run, nchildren, nodes = run_nested(plan)
        nt = run is not None and nchildren >= 2 and nodes >= 3
        acc.case({'nested': True, 'plan': plan}, nt, nodes)
        acc.count('nested-returned' if nchildren >= 0 else 'nested-raised')
        if f:
            acc.fail(f)

    hyp_search(acc, body, mix(ctx.seed, 'C01n', shard['index']), ctx.budget(400, 8000))


# ----------------------------------------------------------------------------------------------
# nested documents: a plan is {'element': el, 'ops': [...], 'kids': {op index: plan}}; an 'add' whose index
# appears in 'kids' adds a *checked* child built (recursively) from that plan instead of a stub.
# ----------------------------------------------------------------------------------------------

def draw_nested_plan(data, el, depth):
    s = schema()
    t = s.element_type[el]
    dfa = s.dfa(t) if s.content_kind(t) == 'elements' else None
    plan = {'element': el, 'ops': [], 'kids': {}}
    if dfa is None:
        return plan
    # a valid word, supplied in a possibly perturbed order, so that the checked parent can complete
    word = list(gen.draw_word(data, dfa, max_len=data.draw(st.sampled_from([3, 6])), stop_bias=2))
    if len(word) > 1 and data.draw(st.integers(0, 2)) == 0:
        i = data.draw(st.integers(0, len(word) - 2))
        word[i], word[i + 1] = word[i + 1], word[i]
    for i, a in enumerate(word):
        plan['ops'].append(['add', a])
        ct = s.element_type[a]
        if depth > 1 and s.content_kind(ct) == 'elements' and data.draw(st.integers(0, 1)) == 0:
            plan['kids'][str(i)] = draw_nested_plan(data, a, depth - 1)
    if data.draw(st.integers(0, 3)) == 0 and word:
        plan['ops'].append(['remove', data.draw(st.integers(0, len(word) - 1))])
        plan['ops'].append(['add', data.draw(st.sampled_from(sorted(dfa.alphabet)))])
    return plan


def build_nested(plan, registry):
    run = Run(plan['element'])
    if run.e is None:
        return run
    for i, op in enumerate(plan['ops']):
        sub = plan['kids'].get(str(i))
        if op[0] == 'add' and sub is not None:
            child_run = build_nested(sub, registry)
            if child_run.e is None:
                run.apply(op)
                continue
            idx = len(run.ops)
            run.ops.append(op)
            c = child_run.e
            run.labels[id(c)] = 'k%d:%s' % (idx, op[1])
            run.keep.append(c)
            r = call(run.e.add_child, c)
            if r.ok:
                run.model.append(c)
                registry[id(c)] = child_run
            run._finish(op, r)
        else:
            run.apply(op)
    return run


def run_nested(plan):
    registry = {}
    run = build_nested(plan, registry)
    if run.e is None:
        return None, None, -1, 0
    nodes = 1 + len(registry)
    for ic in (False, True):
        r = call(run.e.to_string, intelligent_choice=ic)
        if r.ok:
            bad = verify_output(run, r.value, registry)
            if bad:
                return ({'kind': bad[0], 'type': run.tkey, 'site': None, 'input': {'nested': True, 'plan': plan},
                         'observed': bad[1], 'expected': 'every checked node valid'}, run, len(run.model), nodes)
            return None, run, len(run.model), nodes
    return None, run, -1, nodes


def _replay_nested(inp):
    f, run, n, nodes = run_nested(inp['plan'])
    return f
