"""C02 - schema-valid child sequences are accepted and kept in document order."""
import os
import tempfile
import xml.etree.ElementTree as ET

from hypothesis import strategies as st

from .. import driver, gen
from ..driver import call, stub, fresh
from ..oracle.schema import schema
from ..run import hyp_search, mix

RULE = ('words of each content model\'s language: ALL words of length <= L (quick L=4, thorough L=6 capped per type), '
        'the 2-switch cover of every DFA, and Hypothesis-drawn DFA walks up to length 40 (loops included), each fed '
        'left to right with add_child on a fresh checked element (children are unchecked stubs; afterwards a child with a same-named later sibling is exchanged for an equal one by replace_child and must keep its place; then all children are removed and the same word is supplied again: it must be accepted and kept in order as on an empty element) and, second path, '
        'written as XML and read with parse_musicxml. Non-trivial = length>=2 and the DFA path takes a transition on a '
        'cycle or leaves a state with >1 continuation, or the empty word where the schema allows it; distinct by '
        '(type, element, word, path).')
ASSUMPTIONS = ['children are stubs (oracle-valid value, xsd_check=False) so only the parent grammar decides']


def EXHAUSTIVE(ctx):
    return False   # exhaustive only up to the stated word length (see coverage.exhaustive_word_length)


def _nontrivial(dfa, word, cyc):
    if len(word) == 0:
        return True
    if len(word) < 2:
        return False
    s = 0
    for a in word:
        if (s, a) in cyc or len(dfa.trans[s]) + (1 if s in dfa.accepting else 0) > 1:
            return True
        s = dfa.trans[s][a]
    return False


def check_word(tkey, el, word, path='api', refill=True):
    """returns failure dict or None"""
    inp = {'element': el, 'word': list(word), 'path': path}

    def F(kind, observed, site=None):
        return {'kind': kind, 'type': tkey, 'site': site, 'input': inp, 'observed': observed,
                'expected': 'accepted, kept in the supplied order, serialised in that order'}

    if path == 'parser':
        return _check_parser(tkey, el, word, F)
    r = call(fresh, el)
    if not r.ok:
        return F('parent-construction-failed', '%s: %s' % (r.etype, r.msg), r.site)
    e = r.value
    kids = []
    for i, a in enumerate(word):
        c = stub(a)
        r = call(e.add_child, c)
        if not r.ok:
            return F('rejected-at-add', '%s at index %d (%s)' % (r.etype, i, a), r.site)
        kids.append(c)
    r = call(e.get_children, True)
    if not r.ok:
        return F('get-children-failed', r.etype, r.site)
    oc = r.value
    if len(oc) != len(kids) or any(x is not y for x, y in zip(oc, kids)):
        return F('reordered', [c.name for c in oc])
    r = call(e.to_string)
    if not r.ok:
        return F('rejected-at-final-check', '%s: %s' % (r.etype, r.msg[:160]), r.site)
    try:
        tags = driver.child_tags(r.value)
    except ET.ParseError as ex:
        return F('output-not-well-formed', str(ex))
    if tags != list(word):
        return F('serialised-order-differs', tags)
    # the same word reached by exchanging one child for an equal one (replace_child / xml_x = instance) is the same
    # word: the exchanged child keeps its place.  Tried where it can matter: a child with a same-named later sibling.
    for i, a in enumerate(word):
        if a in word[i + 1:]:
            new = stub(a)
            r = call(e.replace_child, kids[i], new)
            if not r.ok:
                return F('replacement-by-equal-child-rejected', '%s at index %d (%s)' % (r.etype, i, a), r.site)
            kids[i] = new
            oc = call(e.get_children, True).value or []
            r = call(e.to_string)
            if len(oc) != len(kids) or any(x is not y for x, y in zip(oc, kids)) or not r.ok or \
                    driver.child_tags(r.value) != list(word):
                return F('replacement-by-equal-child-moves-it', {'index': i, 'ordered': [
                    'new' if c is new else c.name for c in oc], 'string': r.verdict()[0]})
            break
    # an element that has been filled and emptied again is an empty element: the same word is accepted again
    if refill and len(word) >= 2:
        for c in reversed(list(kids)):
            if not call(e.remove, c).ok:
                return None          # (a failing removal is C10 / C11's subject)
        kids2 = []
        for i, a in enumerate(word):
            c = stub(a)
            r = call(e.add_child, c)
            if not r.ok:
                return F('rejected-at-add-after-emptying', '%s at index %d (%s)' % (r.etype, i, a), r.site)
            kids2.append(c)
        oc = call(e.get_children, True).value or []
        if len(oc) != len(kids2) or any(x is not y for x, y in zip(oc, kids2)):
            return F('reordered-after-emptying', [c.name for c in oc])
    return None


def _xml_for(el, word):
    root = ET.Element(el)
    for k, v in driver.required_attrs(el).items():
        root.set(k.replace('_', '-'), str(v))
    for a in word:
        c = ET.SubElement(root, a)
        v = driver.stub_value(a)
        if v is not None:
            c.text = str(v)
        for k, vv in driver.required_attrs(a).items():
            c.set(k.replace('_', '-'), str(vv))
    return ET.tostring(root, encoding='unicode')


def _check_parser(tkey, el, word, F):
    from musicxml.parser.parser import parse_musicxml
    fd, p = tempfile.mkstemp(suffix='.xml', prefix='mxv_c02_')
    try:
        with os.fdopen(fd, 'w', encoding='utf-8') as f:
            f.write('<?xml version="1.0" encoding="UTF-8"?>\n' + _xml_for(el, word))
        r = call(parse_musicxml, p)
    finally:
        os.unlink(p)
    if not r.ok:
        return F('parser-rejected', '%s: %s' % (r.etype, r.msg[:160]), r.site)
    r2 = call(r.value.get_children, True)
    if not r2.ok:
        return F('get-children-failed', r2.etype, r2.site)
    got = [c.name for c in r2.value]
    if got != list(word):
        return F('parser-reordered', got)
    return None


def replay_case(rec):
    inp = rec['input']
    s = schema()
    return check_word(s.element_type[inp['element']], inp['element'], tuple(inp['word']), inp.get('path', 'api'))


def shards(ctx):
    te = gen.types_and_elements(all_elements=not ctx.quick)
    jobs = []
    for t, els in te:
        jobs.append({'mode': 'exh', 'type': t, 'elements': els})
    n_rand = 16
    for i in range(n_rand):
        jobs.append({'mode': 'random', 'index': i, 'n': n_rand})
    # big types first for load balance
    s = schema()
    jobs.sort(key=lambda j: -(min(s.dfa(j['type']).count_words(4), 3000) if j['mode'] == 'exh' else 10 ** 9))
    return jobs


def _do(acc, tkey, el, word, dfa, cyc, path, raise_):
    nt = _nontrivial(dfa, word, cyc)
    acc.case({'type': tkey, 'element': el, 'word': list(word), 'path': path}, nt, len(word))
    acc.count('len=%s' % (len(word) if len(word) < 6 else '6+'))
    f = check_word(tkey, el, word, path)
    if f is not None:
        acc.fail(f, raise_=raise_)


def run_shard(ctx, shard, acc):
    s = schema()
    if shard['mode'] == 'exh':
        t = shard['type']
        dfa = s.dfa(t)
        cyc = dfa.cycle_transitions()
        Lmax = 4 if ctx.quick else 6
        cap = ctx.budget(2500, 40000)
        L = 0
        while L < Lmax and dfa.count_words(L + 1) <= cap:
            L += 1
        words = dfa.enumerate(L)
        if L < Lmax:
            # deterministic stride sample of the next length(s) up to the cap
            more = [w for w in dfa.enumerate(L + 1, cap=200000) if len(w) == L + 1]
            room = max(cap - len(words), 0)
            if more and room:
                step = max(1, len(more) // room)
                words += more[(ctx.seed % step)::step][:room]
        acc.extras['exhaustive_word_length'] = {t: L}
        cover = [w for w in dfa.switch_cover() if len(w) > L]
        acc.extras['switch_cover_words'] = len(cover)
        for el in shard['elements']:
            for w in words:
                _do(acc, t, el, w, dfa, cyc, 'api', False)
            for w in cover:
                _do(acc, t, el, w, dfa, cyc, 'api', False)
        # parser path on the representative element: all words up to 3 (quick) / 4, plus the cover
        el = shard['elements'][0]
        for w in dfa.enumerate(min(L, 3 if ctx.quick else 4), cap=1500 if ctx.quick else 6000) + cover:
            _do(acc, t, el, w, dfa, cyc, 'parser', False)
        return
    # random long words
    te = gen.types_and_elements(all_elements=not ctx.quick)
    per = ctx.budget(700, 12000)

    def body(data):
        t, els = data.draw(st.sampled_from(te))
        el = data.draw(st.sampled_from(els))
        dfa = s.dfa(t)
        w = gen.draw_word(data, dfa, max_len=data.draw(st.sampled_from([6, 12, 40])), stop_bias=6)
        path = data.draw(st.sampled_from(['api', 'api', 'api', 'parser']))
        _do(acc, t, el, w, dfa, dfa.cycle_transitions(), path, True)

    hyp_search(acc, body, mix(ctx.seed, 'C02', shard['index']), per)
