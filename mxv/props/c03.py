"""C03 - every element class is a faithful translation of its XSD declaration (finite, enumerated)."""
import xml.etree.ElementTree as ET

from .. import driver
from ..driver import call
from ..oracle import lexical
from ..oracle.schema import DFA, P, XS, schema

RULE = ('complete enumeration of the pinned schema: every partwise element name (naming rule, uniqueness, TYPE '
        'binding, dot-name collisions), every element-content type (language equivalence of the instance\'s '
        'child_container_tree, converted to a DFA, with the oracle DFA, by product construction), every '
        '(element, attribute) pair (name, value-type class, required flag), every complex type / attribute group '
        '/ simple type class (carried declaration equals the pinned one, base class = declared base), and the '
        'schema copy the library loads. Every obligation is a distinct non-trivial case.')
ASSUMPTIONS = ['attribute names are compared by local name here; the xml:/xlink: prefix question is decided by C04 on '
               'the serialised output']
EXHAUSTIVE = True


def camel(name):
    name = name.split(':')[-1]
    return ''.join(p[0].upper() + p[1:] for p in name.split('-') if p)


def simple_class_name(t):
    return 'XSDSimpleType' + camel(t)


# types the library maintains by hand (the property statement names them): their classes need not carry the
# schema text verbatim (note's choice is re-ordered, two union classes carry their base's declaration); what must be
# faithful is their language / attribute table (obligations below) and their value space (C05).
HAND_MAINTAINED = {'note', 'font-size', 'number-or-normal', 'positive-integer-or-empty', 'yes-no-number'}

ANON = {'#score-partwise': 'XSDComplexTypeScorePartwise', '#part': 'XSDComplexTypePart',
        '#measure': 'XSDComplexTypeMeasure', '#directive': 'XSDComplexTypeDirective'}


def type_class_name(tkey):
    s = schema()
    if tkey in ANON:
        return ANON[tkey]
    if tkey in s.complex:
        return 'XSDComplexType' + camel(tkey)
    return simple_class_name(tkey)


def norm(node):
    """annotation-free, whitespace-insensitive canonical form of a schema node"""
    kids = [norm(c) for c in node if c.tag != XS + 'annotation']
    return (node.tag, tuple(sorted(node.attrib.items())), (node.text or '').strip(), tuple(kids))


def container_to_particle(node):
    from musicxml.xsd.xsdelement import XSDElement
    from musicxml.xsd.xsdindicator import XSDChoice, XSDGroup, XSDSequence
    c = node.content
    mn = node.min_occurrences
    mx = node.max_occurrences
    mx = None if mx == 'unbounded' else int(mx)
    if isinstance(c, XSDElement):
        return P('elem', c.name, int(mn), mx)
    kids = [container_to_particle(k) for k in node.get_children()]
    if isinstance(c, XSDChoice):
        return P('choice', None, int(mn), mx, kids)
    if isinstance(c, (XSDSequence, XSDGroup)):
        return P('seq', None, int(mn), mx, kids)
    raise TypeError(type(c).__name__)


def F(kind, type_, inp, observed, expected, site=None):
    return {'kind': kind, 'type': type_, 'site': site, 'input': inp, 'observed': observed, 'expected': expected}


# ----------------------------------------------------------------------------------------------
# obligations
# ----------------------------------------------------------------------------------------------

def ob_naming(el):
    s = schema()
    X = driver.X
    r = call(driver.cls_for, el)
    if not r.ok:
        return F('no-class-for-element', s.element_type[el], {'ob': 'naming', 'element': el}, r.etype, 'a class')
    cls = r.value
    if not (isinstance(cls, type) and issubclass(cls, X.XMLElement)):
        return F('not-an-element-class', s.element_type[el], {'ob': 'naming', 'element': el}, repr(cls), 'XMLElement')
    r = call(lambda: cls.XSD_TREE.name)
    if not r.ok or r.value != el:
        return F('class-bound-to-other-element', s.element_type[el], {'ob': 'naming', 'element': el},
                 r.value if r.ok else r.etype, el)
    return None


def ob_binding(el):
    s = schema()
    t = s.element_type[el]
    inp = {'ob': 'binding', 'element': el}
    cls = driver.cls_for(el)
    want = type_class_name(t)
    got = getattr(cls.TYPE, '__name__', None)
    if got != want:
        return F('wrong-type-binding', t, inp, got, want)
    r = call(cls.TYPE.get_xsd_tree)
    if not r.ok:
        return F('type-has-no-declaration', t, inp, r.etype, 'declaration', r.site)
    node = r.value.xml_element_tree_element
    if t in HAND_MAINTAINED:
        return None   # faithfulness of these is decided by the language/attribute obligations and by C05
    if t in s.complex:
        if norm(node) != norm(s.complex[t]):
            return F('type-declaration-differs', t, inp, 'carried declaration differs from pinned', 'equal')
    elif t in s.simple:
        if norm(node) != norm(s.simple[t]):
            return F('type-declaration-differs', t, inp, 'carried declaration differs from pinned', 'equal')
    return None


def ob_language(el):
    s = schema()
    t = s.element_type[el]
    inp = {'ob': 'language', 'element': el}
    r = call(driver.fresh, el)
    if not r.ok:
        return F('construction-failed', t, inp, '%s: %s' % (r.etype, r.msg), 'instance', r.site)
    e = r.value
    r = call(lambda: e.child_container_tree)
    tree = r.value if r.ok else None
    want = s.dfa(t) if s.content_kind(t) == 'elements' else None
    if want is None:
        if tree is not None:
            return F('content-model-on-childless-type', t, inp, 'has a child container', 'none')
        r = call(lambda: set(e.possible_children_names))
        if r.ok and r.value:
            return F('content-model-on-childless-type', t, inp, sorted(r.value), 'no children')
        return None
    if tree is None:
        return F('no-content-model', t, inp, 'no child container', 'content model')
    r = call(container_to_particle, tree)
    if not r.ok:
        return F('template-unreadable', t, inp, '%s: %s' % (r.etype, r.msg), 'particle tree', r.site)
    got = DFA.from_particle(r.value)
    w = want.difference_witness(got)
    if w is not None:
        return F('language-differs', t, dict(inp, witness=list(w)),
                 'library %s this word' % ('accepts' if got.accepts(w) else 'rejects'),
                 'schema %s it' % ('accepts' if want.accepts(w) else 'rejects'))
    r = call(lambda: set(e.possible_children_names))
    if not r.ok or r.value != set(s.alphabet(t)):
        return F('possible-children-differ', t, inp, sorted(r.value) if r.ok else r.etype, sorted(s.alphabet(t)))
    return None


def _attr_table(get):
    """[(local name, value type class name, required)] or failure info"""
    r = call(get)
    if not r.ok:
        return None, r
    rows = []
    for a in r.value:
        rn = call(lambda: a.name)
        if not rn.ok:
            return None, rn
        rt = call(lambda: a.type_.__name__)
        rq = call(lambda: bool(a.is_required))
        rows.append((rn.value, rt.value if rt.ok else 'ERR:' + rt.etype, rq.value if rq.ok else 'ERR'))
    return rows, None


def _oracle_table(attrs):
    rows = []
    for a in attrs:
        t = a['type']
        tn = {'#xml-space': 'xml:space(inline enumeration)', '#xlink-type': 'xlink:type', '#xlink-show': 'xlink:show',
              '#xlink-actuate': 'xlink:actuate'}.get(t) or simple_class_name(t)
        rows.append((a['qname'].split(':')[-1], tn, bool(a['required'])))
    return rows


def ob_attributes(el):
    s = schema()
    t = s.element_type[el]
    inp = {'ob': 'attributes', 'element': el}
    cls = driver.cls_for(el)
    want = _oracle_table(s.attributes_of(t))
    if t not in s.complex:
        r = call(cls.TYPE.get_xsd_attributes) if hasattr(cls.TYPE, 'get_xsd_attributes') else None
        if r is not None and r.ok and r.value:
            return F('attributes-on-simple-type', t, inp, len(r.value), 0)
        return None
    rows, err = _attr_table(cls.TYPE.get_xsd_attributes)
    if rows is None:
        return F('attribute-table-unreadable', t, inp, '%s: %s' % (err.etype, err.msg[:100]), want, err.site)
    if sorted(rows) != sorted(want):
        miss = sorted(set(want) - set(rows))
        extra = sorted(set(rows) - set(want))
        return F('attribute-table-differs', t, inp, {'extra': extra[:6]}, {'missing': miss[:6]})
    # dot names pairwise distinct (children and attributes)
    dots = [driver.py_name(a[0]) for a in want]
    if s.content_kind(t) == 'elements':
        dots += ['xml_' + driver.py_name(n) for n in s.alphabet(t)]
    if len(set(dots)) != len(dots):
        return F('dot-name-collision', t, inp, sorted(d for d in set(dots) if dots.count(d) > 1), 'distinct')
    return None


def ob_complex_type(t):
    s = schema()
    inp = {'ob': 'complex-type', 'type': t}
    import musicxml.xsd.xsdcomplextype as CT
    cls = getattr(CT, type_class_name(t), None)
    if cls is None:
        return F('no-class-for-type', t, inp, None, type_class_name(t))
    if t in HAND_MAINTAINED:
        return None
    r = call(cls.get_xsd_tree)
    if not r.ok or norm(r.value.xml_element_tree_element) != norm(s.complex[t]):
        return F('type-declaration-differs', t, inp, 'differs' if r.ok else r.etype, 'equal', r.site)
    return None


def ob_attgroup(g):
    s = schema()
    inp = {'ob': 'attribute-group', 'group': g}
    import musicxml.xsd.xsdattribute as AT
    cls = getattr(AT, 'XSDAttributeGroup' + camel(g), None)
    if cls is None:
        return F('no-class-for-attribute-group', g, inp, None, 'XSDAttributeGroup' + camel(g))
    rows, err = _attr_table(cls.get_xsd_attributes)
    want = _oracle_table(s.attgroup_attributes(g))
    if rows is None:
        return F('attribute-table-unreadable', g, inp, '%s: %s' % (err.etype, err.msg[:100]), want, err.site)
    if sorted(rows) != sorted(want):
        return F('attribute-table-differs', g, inp, {'extra': sorted(set(rows) - set(want))[:6]},
                 {'missing': sorted(set(want) - set(rows))[:6]})
    return None


def ob_group(g):
    s = schema()
    inp = {'ob': 'group', 'group': g}
    import musicxml.xsd.xsdindicator as IND
    cls = getattr(IND, 'XSDGroup' + camel(g), None)
    if cls is None:
        return F('no-class-for-group', g, inp, None, 'XSDGroup' + camel(g))
    r = call(lambda: cls().xsd_tree.xml_element_tree_element)
    if not r.ok or norm(r.value) != norm(s.groups[g]):
        return F('group-declaration-differs', g, inp, 'differs' if r.ok else r.etype, 'equal', r.site)
    return None


def ob_simple_type(t):
    s = schema()
    inp = {'ob': 'simple-type', 'type': t}
    import musicxml.xsd.xsdsimpletype as ST
    cls = getattr(ST, simple_class_name(t), None)
    if cls is None:
        if t == 'xs:anyURI':
            return F('no-class-for-simple-type', t, inp, None, simple_class_name(t))
        return F('no-class-for-simple-type', t, inp, None, simple_class_name(t))
    if t in s.simple and t not in HAND_MAINTAINED:
        r = call(cls.get_xsd_tree)
        if not r.ok or norm(r.value.xml_element_tree_element) != norm(s.simple[t]):
            return F('type-declaration-differs', t, inp, 'differs' if r.ok else r.etype, 'equal', r.site)
    ti = lexical.info(t)
    if ti.union is None and ti.base is not None and t in s.simple:
        want = simple_class_name(ti.base)
        bases = [b.__name__ for b in cls.__mro__[1:]]
        if want not in bases:
            return F('simple-type-base-differs', t, inp, bases[:3], want)
    return None


def ob_loaded_schema(_):
    s = schema()
    from musicxml.generate_classes.utils import musicxml_xsd_et_root
    if norm(musicxml_xsd_et_root) != norm(s.root):
        # locate the first differing top-level declaration
        a = {(c.tag, c.get('name')): norm(c) for c in musicxml_xsd_et_root if c.tag != XS + 'annotation'}
        b = {(c.tag, c.get('name')): norm(c) for c in s.root if c.tag != XS + 'annotation'}
        diff = sorted(str(k) for k in set(a) | set(b) if a.get(k) != b.get(k))
        return F('loaded-schema-differs', 'schema', {'ob': 'loaded-schema'}, diff[:5], 'equal to pinned')
    return None


def ob_class_uniqueness(_):
    s = schema()
    seen = {}
    for el in sorted(s.element_type):
        cn = driver.convert_to_xml_class_name(el)
        if cn in seen:
            return F('class-name-collision', 'schema', {'ob': 'uniqueness'}, [seen[cn], el], 'distinct classes')
        seen[cn] = el
    classes = {}
    for el in sorted(s.element_type):
        c = getattr(driver.X, driver.convert_to_xml_class_name(el), None)
        if c is not None:
            if id(c) in classes:
                return F('class-name-collision', 'schema', {'ob': 'uniqueness'}, [classes[id(c)], el], 'distinct')
            classes[id(c)] = el
    # no extra element classes beyond the schema's names
    extra = [n for n, c in vars(driver.X).items()
             if isinstance(c, type) and issubclass(c, driver.X.XMLElement) and c is not driver.X.XMLElement
             and n.startswith('XML') and n not in seen]
    if extra:
        return F('class-without-declaration', 'schema', {'ob': 'uniqueness'}, sorted(extra)[:5], 'none')
    return None


OBS = {'naming': ob_naming, 'binding': ob_binding, 'language': ob_language, 'attributes': ob_attributes,
       'complex-type': ob_complex_type, 'attribute-group': ob_attgroup, 'group': ob_group,
       'simple-type': ob_simple_type, 'loaded-schema': ob_loaded_schema, 'uniqueness': ob_class_uniqueness}


def obligations(ctx):
    s = schema()
    obs = []
    els = sorted(s.element_type)
    for el in els:
        obs.append(('naming', el))
    for el in els:
        obs.append(('binding', el))
        obs.append(('attributes', el))
    rep = set()
    for el in els:
        t = s.element_type[el]
        if ctx.quick and t in rep and s.content_kind(t) != 'elements':
            continue
        rep.add(t)
        obs.append(('language', el))
    for t in sorted(s.complex):
        obs.append(('complex-type', t))
    for g in sorted(s.attgroups):
        obs.append(('attribute-group', g))
    for g in sorted(s.groups):
        obs.append(('group', g))
    for t in lexical.all_simple_type_names():
        if t == 'xs:Name':
            continue
        obs.append(('simple-type', t))
    obs.append(('loaded-schema', None))
    obs.append(('uniqueness', None))
    return obs


def shards(ctx):
    obs = obligations(ctx)
    n = 15
    jobs = [{'obs': obs[i::n]} for i in range(n)]
    # order independence: the tables are built lazily and cached; one process computes ALL attribute tables in
    # schema order and then re-checks every one of them in reverse order, so a table that is altered by the later
    # construction of another type's table (shared list, polluted base) is seen
    els = sorted(schema().element_type)
    again = [('attributes', el) for el in els] + [('attribute-group', g) for g in sorted(schema().attgroups)]
    jobs.append({'obs': again + list(reversed(again)), 'second_pass': True})
    # the declarations are class-level data that instances are built from: after every class has been USED (also born
    # unchecked and switched to checking later) the content models and attribute tables must still equal the schema's
    jobs.append({'obs': [('language', el) for el in els] + [('attributes', el) for el in els], 'after_usage': True})
    return jobs


def usage_warm_up():
    """use every element class the ways an application does before its declarations are looked at again: build it
    checked and unchecked, switch checking on afterwards, give it the children of a few valid words (long enough to
    make repeated particles repeat), serialise, deep copy, remove"""
    import copy as _copy
    s = schema()
    for el in sorted(s.element_type):
        t = s.element_type[el]
        words = list(s.dfa(t).enumerate(4, cap=30))[-3:] if s.content_kind(t) == 'elements' else [()]
        for w in words:
            for born_checked in (True, False):
                r = call(driver.fresh, el, born_checked)
                if not r.ok:
                    continue
                e = r.value
                call(setattr, e, 'xsd_check', True)
                kids = [driver.stub(a) for a in w]
                for k in kids:
                    call(e.add_child, k)
                call(e.to_string)
                call(_copy.deepcopy, e)
                if kids:
                    call(e.remove, kids[0])


def run_shard(ctx, shard, acc):
    s = schema()
    if shard.get('after_usage'):
        usage_warm_up()
    for i, (kind, arg) in enumerate(shard['obs']):
        case = {'ob': kind, 'arg': arg}
        if shard.get('second_pass'):
            case['pass'] = 1 if i < len(shard['obs']) // 2 else 2
        acc.case(case, True)
        acc.count(kind)
        if kind == 'attributes':
            acc.extras['attribute_pairs'] = acc.extras.get('attribute_pairs', 0) + len(
                s.attributes_of(s.element_type[arg]))
        f = OBS[kind](arg)
        if f is not None:
            if shard.get('after_usage'):
                f['input']['after_usage'] = 1
            acc.fail(f, raise_=False)


def replay_case(rec):
    inp = rec['input']
    if inp.get('after_usage'):
        usage_warm_up()
    kind = inp['ob']
    arg = inp.get('element') or inp.get('type') or inp.get('group')
    return OBS[kind](arg)
