"""C04 - the attribute interface of each element is exactly the schema's."""
import os
import tempfile
import xml.etree.ElementTree as ET

from hypothesis import strategies as st

from .. import driver, gen
from ..driver import call, cls_for, py_name
from ..oracle import lexical
from ..oracle.schema import clark, schema
from ..run import hyp_search, mix

RULE = ('for every class with a required attribute: an instance lacking it is refused also below an unchecked element of a checked tree; '
        '(a) exhaustive layer (constructor route also with a None keyword for another attribute, which must change nothing): every declared (element, attribute) pair x {oracle-valid value, near-miss invalid value} '
        'x {constructor keyword, dot assignment, parser (a one-element document read with parse_musicxml)}; per '
        'element a fixed list of undeclared names (other elements\' attribute names and made-up identifiers) on the '
        'constructor and dot routes.  (b) Hypothesis-drawn histories of set / overwrite / set-None / failing set on '
        'random elements followed by to_string.  Oracle = model dict: declared and valid => no exception and '
        '`attributes` shows the value under the schema (hyphenated) name; undeclared or invalid => exception and '
        '`attributes` unchanged; None removes; to_string raises whenever a schema-required attribute is missing and '
        'returns when none is missing and no child is required; the attribute set xml.etree recovers from the output '
        'equals the model, xml:/xlink: attributes under their namespace-qualified names.  Non-trivial = history with '
        '>=1 overwrite, removal or failed set followed by a serialisation; the exhaustive layer counts each '
        '(element, attribute, route, validity) once.')
ASSUMPTIONS = ['values whose validity depends on representation (the string "3" for an integer type, 3.0 for an integer '
               'type, bool) are not asserted here in either direction; C05 owns emitted-text validity']
EXHAUSTIVE = False

UNDECLARED = ['bogus', 'not_an_attribute', 'fontfamily', 'Default_x', 'numbr', 'x', 'colour', 'type_of', 'id_',
              'font_weird', 'relative', 'default', 'placement_', 'print_obj', 'lang_', 'spaces', 'href_', 'valu',
              'number_of', 'zz_top']


_FOREIGN = []
_FOREIGN_VALUE = {}   # a value that is valid where the name IS declared (so only the name can be the reason to refuse)


def foreign_names():
    """python names of attributes that real types declare: first those that complexContent extensions add to their
    base (a base table polluted by its extension accepts exactly these), then the rest of the schema's names"""
    if not _FOREIGN:
        s = schema()
        first, rest = [], []
        for t, node in s.complex.items():
            cc = node.find('{http://www.w3.org/2001/XMLSchema}complexContent')
            if cc is not None:
                ext = cc.find('{http://www.w3.org/2001/XMLSchema}extension')
                for a in s._attrs_from(ext):
                    n = py_name(a['qname'].split(':')[-1])
                    if n not in first:
                        first.append(n)
                    _FOREIGN_VALUE.setdefault(n, valid_value(a)[1])
        for t in sorted(s.complex):
            for a in s.attributes_of(t):
                n = py_name(a['qname'].split(':')[-1])
                if n not in first and n not in rest:
                    rest.append(n)
                if not a['qname'].startswith('xlink:') and not a['type'].startswith('#'):
                    _FOREIGN_VALUE.setdefault(n, valid_value(a)[1])
        _FOREIGN.extend([first, rest])
    return _FOREIGN


def warm_up(seed):
    """build every class's lazily computed attribute table, in a seed-dependent order (public API only)"""
    import random
    s = schema()
    els = sorted(s.element_type)
    random.Random(seed).shuffle(els)
    for el in els:
        c = cls_for(el)
        if hasattr(c.TYPE, 'get_xsd_attributes'):
            call(c.TYPE.get_xsd_attributes)


def attr_decl(el, q):
    s = schema()
    return [a for a in s.attributes_of(s.element_type[el]) if a['qname'] == q][0]


def ctor_args(el):
    s = schema()
    v = driver.stub_value(el)
    t = s.element_type[el]
    return (v,) if (v is not None and s.content_kind(t) in ('simple', 'text')) else ()


def valid_value(a):
    txt = a['fixed'] or lexical.valid_texts(a['type'])[0]
    ok, pv = lexical.python_value_for(a['type'], txt)
    return txt, pv


def invalid_value(a):
    """a python value certainly outside the type, in the representation the type documents; None when the type
    admits every string (xs:string / xs:token / anyURI)"""
    ti = lexical.info(a['type'])
    bad = lexical.invalid_texts(a['type'])
    if ti.union is None and ti.primitive == 'decimal':
        for b in bad:
            try:
                if ti.is_integer:
                    return b, int(b)
                return b, float(b) if '.' in b else int(b)
            except ValueError:
                continue
        return 'abc', 'abc'
    for b in bad:
        if b != '' and lexical.normalise(a['type'], b) == b and not lexical.valid(a['type'], b):
            ok_num = False
            try:
                float(b)
                ok_num = True
            except ValueError:
                pass
            if not ok_num:
                return b, b
    return None, None


def F(kind, t, inp, observed, expected, site=None):
    return {'kind': kind, 'type': t, 'site': site, 'input': inp, 'observed': observed, 'expected': expected}


def shown(e, q):
    """value under which `attributes` lists the attribute: by local hyphenated name"""
    return dict(e.attributes).get(q.split(':')[-1], dict(e.attributes).get(q))


def serialised_attrs(text):
    return dict(ET.fromstring(text).attrib)


def pair(el, q, route, validity):
    s = schema()
    t = s.element_type[el]
    a = attr_decl(el, q)
    inp = {'layer': 'pair', 'element': el, 'attribute': q, 'route': route, 'validity': validity}
    dot = py_name(q.split(':')[-1])
    cls = cls_for(el)
    txt, pv = valid_value(a) if validity == 'valid' else invalid_value(a)
    if txt is None:
        return None, 'no-invalid-value'
    if route == 'parser':
        return pair_parser(el, q, txt, validity, inp, t), 'run'
    if route == 'ctor':
        r = call(cls, *ctor_args(el), **{dot: pv})
        e = r.value if r.ok else None
        # a keyword with the value None for ANOTHER (unset) attribute is a no-op: same verdict, same attributes
        others = [py_name(x['qname'].split(':')[-1]) for x in s.attributes_of(t)
                  if x['qname'] != q and not x['qname'].startswith('xlink:') and x['qname'] not in ('xml:space', 'name')]
        for kw in ([{others[0]: None, dot: pv}, {dot: pv, others[-1]: None}] if others else []):
            r3 = call(cls, *ctor_args(el), **kw)
            if r3.ok != r.ok or (r.ok and dict(r3.value.attributes) != dict(e.attributes)):
                return F('none-keyword-changes-constructor-result', t, dict(inp, keywords=sorted(kw)),
                         {'with None keyword': r3.verdict() if not r3.ok else dict(r3.value.attributes),
                          'without': r.verdict() if not r.ok else dict(e.attributes)}, 'identical', r3.site), 'run'
    else:
        r0 = call(cls, *ctor_args(el))
        if not r0.ok:
            return F('construction-failed', t, inp, '%s: %s' % (r0.etype, r0.msg[:100]), 'instance', r0.site), 'run'
        e = r0.value
        r = call(setattr, e, dot, pv)
    if validity == 'valid':
        if not r.ok:
            return F('declared-valid-attribute-rejected', t, inp, '%s: %s' % (r.etype, r.msg[:100]), 'accepted',
                     r.site), 'run'
        got = shown(e, q)
        if got != pv or q.split(':')[-1] not in dict(e.attributes):
            return F('attribute-not-listed-under-schema-name', t, inp, dict(e.attributes), {q: pv}), 'run'
        # serialisation: attribute present under its (qualified) schema name
        rs = call(e.to_string)
        if rs.ok:
            sa = serialised_attrs(rs.value)
            if clark(q) not in sa:
                return F('attribute-serialised-under-wrong-name', t, inp, sorted(sa), clark(q)), 'run'
        # None removes
        r2 = call(setattr, e, dot, None)
        if not r2.ok or q.split(':')[-1] in dict(e.attributes):
            return F('none-does-not-remove', t, inp, r2.verdict(), 'removed', r2.site), 'run'
    else:
        if r.ok:
            return F('invalid-attribute-value-accepted', t, inp, {'value': repr(pv), 'attributes': dict(e.attributes)},
                     'exception'), 'run'
        if route == 'dot' and dict(e.attributes):
            return F('failed-assignment-stored-something', t, inp, dict(e.attributes), {}), 'run'
    return None, 'run'


def pair_parser(el, q, txt, validity, inp, t):
    from musicxml.parser.parser import parse_musicxml
    root = ET.Element(el)
    for k, v in driver.required_attrs(el).items():
        root.set(k.replace('_', '-'), str(v))
    root.set(clark(q), txt)
    v = driver.stub_value(el)
    if v is not None:
        root.text = str(v)
    if q.startswith('xlink:'):
        ET.register_namespace('xlink', 'http://www.w3.org/1999/xlink')
    fd, p = tempfile.mkstemp(suffix='.xml', prefix='mxv_c04_')
    try:
        with os.fdopen(fd, 'wb') as f:
            f.write(b'<?xml version="1.0" encoding="UTF-8"?>\n' + ET.tostring(root, encoding='utf-8'))
        r = call(parse_musicxml, p)
    finally:
        os.unlink(p)
    if validity == 'valid':
        if not r.ok:
            return F('declared-valid-attribute-rejected', t, inp, '%s: %s' % (r.etype, r.msg[:100]), 'parsed', r.site)
        e = r.value
        if q.split(':')[-1] not in dict(e.attributes) and q not in dict(e.attributes):
            return F('attribute-not-listed-under-schema-name', t, inp, dict(e.attributes), q)
    else:
        if r.ok:
            return F('invalid-attribute-value-accepted', t, inp, dict(r.value.attributes), 'exception')
    return None


def undeclared(el, name, route):
    s = schema()
    t = s.element_type[el]
    inp = {'layer': 'undeclared', 'element': el, 'name': name, 'route': route}
    cls = cls_for(el)
    foreign_names()
    val = _FOREIGN_VALUE.get(name, 'x')
    if route == 'ctor':
        r = call(cls, *ctor_args(el), **{name: val})
        if r.ok:
            return F('undeclared-attribute-accepted', t, inp, dict(r.value.attributes), 'exception')
        return None
    r0 = call(cls, *ctor_args(el))
    if not r0.ok:
        return None
    r = call(setattr, r0.value, name, val)
    if r.ok:
        return F('undeclared-attribute-accepted', t, inp, dict(r0.value.attributes), 'exception')
    if dict(r0.value.attributes):
        return F('failed-assignment-stored-something', t, inp, dict(r0.value.attributes), {})
    return None


# -- histories ---------------------------------------------------------------------------------------

def history(el, ops):
    """ops: ['ctor', qname, value] (leading: constructor keywords) | ['set', qname, value] | ['none', qname] |
    ['bad', qname] | ['undeclared', name] | ['raw', qname, value] | ['copy'] (continue on a deep copy)"""
    s = schema()
    t = s.element_type[el]
    inp = {'layer': 'history', 'element': el, 'ops': ops}
    decl = {a['qname']: a for a in s.attributes_of(t)}
    # the leading ['ctor', q, v] ops are given as constructor keywords
    kw = {py_name(o[1].split(':')[-1]): o[2] for o in ops if o[0] == 'ctor'}
    r = call(cls_for(el), *ctor_args(el), **kw)
    if not r.ok:
        return None if not kw else F('declared-valid-attribute-rejected', t, inp, {'step': 'ctor', 'exc': r.etype},
                                     'accepted', r.site)
    e = r.value
    model = {o[1]: o[2] for o in ops if o[0] == 'ctor'}
    for i, op in enumerate(ops):
        before = dict(e.attributes)
        if op[0] == 'ctor':
            continue
        if op[0] == 'copy':
            # continue on a deep copy: it carries exactly the attributes that are set now
            import copy as _copy
            r = call(_copy.deepcopy, e)
            if not r.ok:
                return F('deepcopy-raised', t, inp, {'step': i, 'exc': r.etype}, 'a copy', r.site)
            e = r.value
        elif op[0] == 'set':
            r = call(setattr, e, py_name(op[1].split(':')[-1]), op[2])
            if not r.ok:
                return F('declared-valid-attribute-rejected', t, inp, {'step': i, 'exc': r.etype}, 'accepted', r.site)
            model[op[1]] = op[2]
        elif op[0] == 'none':
            r = call(setattr, e, py_name(op[1].split(':')[-1]), None)
            if not r.ok:
                return F('none-does-not-remove', t, inp, {'step': i, 'exc': r.etype}, 'removed', r.site)
            model.pop(op[1], None)
        elif op[0] == 'raw':
            # any value: the verdict of an assignment must not depend on what is currently stored (validation is
            # a function of the attribute's type and the offered value only) - compared with a fresh element
            r = call(setattr, e, py_name(op[1].split(':')[-1]), op[2])
            rf0 = call(cls_for(el), *ctor_args(el))
            rf = call(setattr, rf0.value, py_name(op[1].split(':')[-1]), op[2]) if rf0.ok else None
            if rf is not None and r.ok != rf.ok:
                return F('assignment-verdict-depends-on-stored-value', t, inp,
                         {'step': i, 'value': repr(op[2]), 'here': r.verdict(), 'fresh': rf.verdict()},
                         'same verdict as on a fresh element', r.site or rf.site)
            if r.ok:
                model[op[1]] = op[2]
            elif dict(e.attributes) != before:
                return F('failed-assignment-stored-something', t, inp, dict(e.attributes), before)
        elif op[0] == 'bad':
            _, pv = invalid_value(decl[op[1]])
            r = call(setattr, e, py_name(op[1].split(':')[-1]), pv)
            if r.ok:
                return F('invalid-attribute-value-accepted', t, inp, {'step': i, 'value': repr(pv)}, 'exception')
            if dict(e.attributes) != before:
                return F('failed-assignment-stored-something', t, inp, dict(e.attributes), before)
        else:
            r = call(setattr, e, op[1], 'x')
            if r.ok:
                return F('undeclared-attribute-accepted', t, inp, {'step': i, 'name': op[1]}, 'exception')
            if dict(e.attributes) != before:
                return F('failed-assignment-stored-something', t, inp, dict(e.attributes), before)
        want = {q.split(':')[-1]: v for q, v in model.items()}
        if dict(e.attributes) != want:
            return F('attributes-differ-from-model', t, inp, {'step': i, 'got': dict(e.attributes)}, want)
    missing = [q for q, a in decl.items() if a['required'] and q not in model]
    rs = call(e.to_string)
    needs_children = s.content_kind(t) == 'elements' and not s.dfa(t).accepts(())
    if missing and rs.ok:
        return F('serialised-without-required-attribute', t, inp, {'missing': missing}, 'to_string raises')
    if not missing and not needs_children and not rs.ok:
        return F('to-string-raises-although-complete', t, inp, '%s: %s' % (rs.etype, rs.msg[:100]), 'returns', rs.site)
    if rs.ok:
        got = serialised_attrs(rs.value)
        want = {clark(q): str(v) for q, v in model.items()}
        if set(got) != set(want):
            return F('serialised-attribute-set-differs', t, inp, sorted(got), sorted(want))
    return None


def shielded(el):
    """an element lacking a schema-required attribute is refused wherever it sits: also below an UNCHECKED element
    inside a checked tree (checked measure > unchecked note > the element)"""
    s = schema()
    t = s.element_type[el]
    req = [a for a in s.attributes_of(t) if a['required']]
    if not req:
        return None, 'no-required-attribute'
    inp = {'layer': 'shielded', 'element': el}
    r = call(cls_for(el), *ctor_args(el))
    if not r.ok:
        return None, 'unbuildable'
    alone = call(r.value.to_string)
    if alone.ok or alone.etype != 'XSDAttributeRequiredException':
        return None, 'other-verdict-alone'        # (children missing first, ...): the pair layer judges those
    leaf = call(cls_for(el), *ctor_args(el)).value
    mid, root = driver.fresh('note', False), driver.fresh('measure', True)
    mid.add_child(leaf)
    root.add_child(mid)
    rr = call(root.to_string)
    if rr.ok or rr.etype != 'XSDAttributeRequiredException':
        return F('serialised-without-required-attribute', t, inp,
                 {'measure > unchecked note > element': rr.verdict(), 'missing': [a['qname'] for a in req]},
                 'XSDAttributeRequiredException, as for the element alone', rr.site), 'run'
    return None, 'run'


def replay_case(rec):
    inp = rec['input']
    if inp['layer'] == 'shielded':
        return shielded(inp['element'])[0]
    if inp.get('after_warm_up') is not None:
        warm_up(inp['after_warm_up'])
    if inp['layer'] == 'pair':
        return pair(inp['element'], inp['attribute'], inp['route'], inp['validity'])[0]
    if inp['layer'] == 'undeclared':
        return undeclared(inp['element'], inp['name'], inp['route'])
    return history(inp['element'], inp['ops'])


def shards(ctx):
    s = schema()
    obs = []
    for el in sorted(s.element_type):
        t = s.element_type[el]
        for a in s.attributes_of(t):
            for route in ('ctor', 'dot', 'parser'):
                for validity in ('valid', 'invalid'):
                    obs.append(('pair', el, a['qname'], route, validity))
        names = {py_name(a['qname'].split(':')[-1]) for a in s.attributes_of(t)}
        first, rest = foreign_names()
        k = 6 if ctx.quick else 40
        pool = [n for n in rest if n not in names and n not in ('name',)]
        off = (ctx.seed * 7 + len(el)) % max(len(pool), 1)
        extra = [n for n in first if n not in names] + (pool[off:] + pool[:off])[:k]
        for n in UNDECLARED + extra:
            if n not in names:
                obs.append(('undeclared', el, n, 'ctor'))
                obs.append(('undeclared', el, n, 'dot'))
    if ctx.quick:
        # quick: every pair on the ctor and dot routes, the parser route and the undeclared names on a
        # deterministic third of the elements (rotating with the seed so that all are visited over three runs)
        els = sorted(s.element_type)
        sel = set(els[(ctx.seed % 3)::3])
        obs = [o for o in obs if (o[0] == 'pair' and o[3] != 'parser') or o[1] in sel]
    jobs = [{'mode': 'enum', 'obs': part, 'warm': i % 2 == 1, 'first': i == 0} for i, part in enumerate(gen.chunk(obs, 16))]
    for i in range(8):
        jobs.append({'mode': 'history', 'index': i})
    return jobs


def run_shard(ctx, shard, acc):
    s = schema()
    if shard['mode'] == 'enum':
        if shard.get('first'):
            for el in sorted(s.element_type):
                f, status = shielded(el)
                acc.count('shielded-' + status)
                if status == 'run':
                    acc.case({'layer': 'shielded', 'element': el}, True)
                if f:
                    acc.fail(f, raise_=False)
        if shard.get('warm'):
            # half of the shards run after every class's attribute table has been built (in a seed-dependent order),
            # the other half build them on demand: the verdicts must not depend on that history
            warm_up(ctx.seed)
            acc.count('shards-after-warm-up')
        for ob in shard['obs']:
            if ob[0] == 'pair':
                f, status = pair(ob[1], ob[2], ob[3], ob[4])
                if status != 'run':
                    acc.count(status)
                    continue
                acc.case({'layer': 'pair', 'element': ob[1], 'attribute': ob[2], 'route': ob[3], 'validity': ob[4]},
                         True)
                acc.count('pair-%s-%s' % (ob[3], ob[4]))
            else:
                f = undeclared(ob[1], ob[2], ob[3])
                acc.case({'layer': 'undeclared', 'element': ob[1], 'name': ob[2], 'route': ob[3]}, True)
                acc.count('undeclared')
            if f:
                # replay in the state in which every table has been built (warm shards are in it from the start,
                # the others reach it piecemeal)
                f['input']['after_warm_up'] = ctx.seed
                acc.fail(f, raise_=False)
        return
    els = sorted(el for el, t in s.element_type.items() if s.attributes_of(t))

    def body(data):
        el = data.draw(st.sampled_from(els))
        t = s.element_type[el]
        attrs = [a for a in s.attributes_of(t) if not a['qname'].startswith('xlink:')
                 and a['qname'] not in ('xml:space', 'name') and a['type'] != 'xs:anyURI']
        if not attrs:
            return
        ops = []
        setq = set()
        flags = set()
        for _ in range(data.draw(st.integers(0, 2))):
            a = data.draw(st.sampled_from(attrs))
            txt = a['fixed'] or data.draw(st.sampled_from(lexical.valid_texts(a['type'])))
            ok, pv = lexical.python_value_for(a['type'], txt)
            if ok and a['qname'] not in setq:
                setq.add(a['qname'])
                ops.append(['ctor', a['qname'], pv])
        for _ in range(data.draw(st.integers(1, 10 if ctx.quick else 25))):
            k = data.draw(st.sampled_from(['set', 'set', 'set', 'none', 'none', 'bad', 'undeclared', 'raw', 'raw', 'copy']))
            a = data.draw(st.sampled_from(attrs))
            if k == 'copy':
                flags.add('copied')
                ops.append(['copy'])
                continue
            if k == 'set':
                txt = a['fixed'] or data.draw(st.sampled_from(lexical.valid_texts(a['type'])))
                ok, pv = lexical.python_value_for(a['type'], txt)
                if not ok:
                    continue
                if a['qname'] in setq:
                    flags.add('overwrite')
                setq.add(a['qname'])
                ops.append(['set', a['qname'], pv])
            elif k == 'raw':
                # values that compare equal to a plausible stored value but have another Python type, and other
                # representation-dependent values: only the independence of the verdict from the history is asserted
                cur = next((o[2] for o in reversed(ops) if o[0] in ('set', 'raw') and o[1] == a['qname']), None)
                pool = [1, 1.0, True, 0, 0.0, False, 2, 2.0, '1', '2', 1.5, '', 'yes']
                if isinstance(cur, bool):
                    pool += [int(cur), float(cur)]
                elif isinstance(cur, int):
                    pool += [float(cur), str(cur), cur == 1]
                elif isinstance(cur, float):
                    pool += [int(cur)] if cur == int(cur) else []
                flags.add('raw-overwrite' if a['qname'] in setq else 'raw-first')
                ops.append(['raw', a['qname'], data.draw(st.sampled_from(pool))])
            elif k == 'none':
                if a['qname'] in setq:
                    flags.add('removal')
                    setq.discard(a['qname'])
                ops.append(['none', a['qname']])
            elif k == 'bad':
                if invalid_value(a)[0] is None:
                    continue
                flags.add('failed-set')
                ops.append(['bad', a['qname']])
            else:
                flags.add('failed-set')
                ops.append(['undeclared', data.draw(st.sampled_from(UNDECLARED))])
        f = history(el, ops)
        acc.case({'layer': 'history', 'element': el, 'ops': ops}, bool(flags), len(ops))
        for fl in flags:
            acc.count(fl)
        if f:
            acc.fail(f)

    hyp_search(acc, body, mix(ctx.seed, 'C04', shard['index']), ctx.budget(2000, 40000))
