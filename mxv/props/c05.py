"""C05 - value validation matches the XSD simple types; emitted text is lexically valid."""
import xml.etree.ElementTree as ET
from decimal import Decimal
from fractions import Fraction

from hypothesis import strategies as st

from .. import driver, gen
from ..driver import call, cls_for, py_name
from ..oracle import lexical
from ..oracle.schema import schema
from ..run import hyp_search, mix
from .c03 import simple_class_name

RULE = ('(emission) for every simple type, through four vehicles (the type class itself, one element whose content '
        'has that type, one attribute of that type, and the same attribute ASSIGNED while it holds an equal valid value of another Python type): a fixed panel of Python values (ints incl. bool and huge, floats '
        'in all magnitudes incl. 1e-05 / 1e22 / -0.0 / nan / inf, Decimal, Fraction, None, strings with interior / '
        'exterior whitespace, containers) plus oracle-valid and near-miss texts plus Hypothesis-drawn numbers and '
        'strings; whenever the library ACCEPTS a value the text it emits (to_string -> xml.etree) must be in the '
        'type\'s lexical space.  (acceptance, exhaustive) every enumeration literal of every type x every type, every '
        'oracle-valid sample text, bounds and bounds+-1 as int and float: text valid for the type and offered in '
        'normalised form in its documented Python representation => accepted.  (c) every element class whose type '
        'permits no character content x non-empty strings must raise.  Non-trivial = (type, value) where the value '
        'is not a canonical valid sample (boundary, exponent float, non-finite, bool, sibling literal, '
        'whitespace-decorated, wrong Python type); distinct by (vehicle, type, value).')
ASSUMPTIONS = ['numeric text offered as str, and integral floats for integer types, are not asserted in either '
               'direction (representation-dependent); a lexical form is offered in the documented Python type']
EXHAUSTIVE = False

PANEL = [0, 1, -1, 2, 3, 4, 7, 8, 9, 10, 16, 17, 100, 101, 128, 129, 16384, 16385, 10 ** 20, -10 ** 20, True, False,
         0.0, -0.0, 0.5, 1.0, 1.5, -1.5, 2.0, 99.999, 100.0, 100.001, 180.0, -180.0, 180.5, -180.5, 1e-05, 1e-07,
         1e22, 1e16, 5e-324, 1.7e308, 123456789.123, 0.1 + 0.2, float('nan'), float('inf'), float('-inf'),
         Decimal('1.5'), Decimal('3'), Fraction(1, 3), None, '', ' ', 'a', ' a', 'a ', 'a  b', 'a\tb', 'a\nb', '1',
         '1.5', '-1', 'yes', ' yes', 'yes ', 'normal', 'NaN', b'x', [], (1,), {}, 1 + 2j]
TABLE = {repr(v): v for v in PANEL}
CANONICAL = {repr(v) for v in (0, 1, 2, 3, 4, 0.5, 1.5, 'a', 'yes', 'normal', '1')}


def key(v):
    return repr(v)


def type_class(t):
    import musicxml.xsd.xsdsimpletype as ST
    return getattr(ST, simple_class_name(t), None)


_VEH = {}


def vehicles(t):
    """(element name or None, (element, attribute qname) or None) using simple type t"""
    if not _VEH:
        s = schema()
        for el in sorted(s.element_type):
            tk = s.element_type[el]
            tt = s.text_type(tk)
            if tt is not None:
                _VEH.setdefault(tt, [None, None])
                if _VEH[tt][0] is None:
                    _VEH[tt][0] = el
            for a in s.attributes_of(tk):
                if a['qname'].startswith('xlink:') or a['qname'] in ('xml:space', 'name') or a['type'].startswith('#'):
                    continue
                _VEH.setdefault(a['type'], [None, None])
                if _VEH[a['type']][1] is None:
                    _VEH[a['type']][1] = (el, a['qname'])
    return _VEH.get(t, [None, None])


def offer(t, vehicle, v):
    """returns (accepted: bool, emitted text or None, Result)"""
    s = schema()
    if vehicle == 'class':
        c = type_class(t)
        if c is None:
            return None, None, None
        r = call(c, v)
        # the class emits nothing itself; str() stands in for the serialiser except for floats, whose formatting is
        # the serialiser's business (judged through the element / attribute vehicles)
        return r.ok, (str(v) if r.ok and not isinstance(v, float) else None), r
    if vehicle == 'element':
        el = vehicles(t)[0]
        if el is None:
            return None, None, None
        r = call(cls_for(el), v, xsd_check=False)
        if not r.ok:
            return False, None, r
        rs = call(r.value.to_string)
        if not rs.ok:
            return True, None, rs
        return True, ET.fromstring(rs.value).text or '', rs
    el, q = vehicles(t)[1] or (None, None)
    if el is None:
        return None, None, None
    kw = {py_name(q.split(':')[-1]): v, 'xsd_check': False}
    sv = driver.stub_value(el)
    tk = s.element_type[el]
    args = (sv,) if (sv is not None and s.content_kind(tk) in ('simple', 'text')) else ()
    if vehicle == 'attribute-overwrite':
        # the value is ASSIGNED to an attribute that already holds a valid value comparing equal to it (1 for
        # True / 1.0, ...): what is accepted must not depend on what is stored
        if isinstance(v, bool) or not isinstance(v, (int, float)) or v != v or v in (float('inf'), float('-inf')):
            cands = [int(v)] if isinstance(v, bool) else []
        else:
            cands = [int(v), float(v)] if v == int(v) else []
        cands = [c for c in cands if type(c) is not type(v)]
        r0 = None
        for c0 in cands:
            r0 = call(cls_for(el), *args, **dict(kw, **{py_name(q.split(':')[-1]): c0}))
            if r0.ok:
                break
        if r0 is None or not r0.ok:
            return None, None, None
        r = call(setattr, r0.value, py_name(q.split(':')[-1]), v)
        if not r.ok:
            return False, None, r
        r.value = r0.value
    else:
        r = call(cls_for(el), *args, **kw)
    if not r.ok:
        return False, None, r
    if v is None:
        return True, None, r     # None = "not set": nothing is emitted
    rs = call(r.value.to_string)
    if not rs.ok:
        return True, None, rs
    node = ET.fromstring(rs.value)
    return True, node.attrib.get(q.split(':')[-1]), rs


def F(kind, t, inp, observed, expected, site=None):
    return {'kind': kind, 'type': t, 'site': site, 'input': inp, 'observed': observed, 'expected': expected}


def value_class(v):
    if isinstance(v, bool):
        return 'bool'
    if isinstance(v, float):
        if v != v or v in (float('inf'), float('-inf')):
            return 'non-finite-float'
        if 'e' in repr(v):
            return 'exponent-float'
        return 'float'
    if isinstance(v, int):
        return 'int'
    if isinstance(v, str):
        if any(ch.isspace() and ch not in ' \t\n\r' for ch in v):
            return 'non-xml-whitespace-str'    # characters Python strips but XML does not treat as white space
        if v != '' and not v.strip(' \t\n\r'):
            return 'whitespace-only-str'
        if lexical.collapse(v) != v:
            return 'whitespace-decorated-str'
        return 'str'
    return type(v).__name__


def check_emission(t, vehicle, v):
    acc_, text, r = offer(t, vehicle, v)
    if not acc_ or text is None:
        return None, acc_
    if not lexical.valid(t, text):
        return F('accepted-value-emits-invalid-text', t,
                 {'side': 'emission', 'vehicle': vehicle, 'value': key(v), 'class': value_class(v)},
                 {'emitted': text}, 'text in the lexical space of %s, or the value rejected' % t), acc_
    return None, acc_


def check_acceptance(t, vehicle, text):
    """text is oracle-valid and normalised; offered in the documented representation"""
    if not lexical.valid(t, text, strict=True):
        return None     # valid only under one reading of the XML name / language productions: not asserted
    ok, pv = lexical.python_value_for(t, text)
    if not ok:
        return None
    acc_, emitted, r = offer(t, vehicle, pv)
    if acc_ is None:
        return None
    if not acc_:
        return F('valid-text-rejected', t, {'side': 'acceptance', 'vehicle': vehicle, 'text': text, 'value': key(pv)},
                 '%s: %s' % (r.etype, r.msg[:120]), 'accepted (text is in the lexical space)', r.site)
    if emitted is not None and not lexical.valid(t, emitted):
        return F('accepted-value-emits-invalid-text', t, {'side': 'emission', 'vehicle': vehicle, 'value': key(pv),
                                                          'class': value_class(pv)},
                 {'emitted': emitted}, 'valid text')
    return None


NO_TEXT_VALUES = ['x', 'some text', '1', ' ', 0, 0.0, 1, 1.5, False, True, [], ['x'], {}, 0j]


def check_no_text(el, v):
    s = schema()
    t = s.element_type[el]
    inp = {'side': 'no-text', 'element': el, 'value': v if isinstance(v, (str, int, float, bool, list, dict)) else repr(v)}
    r = call(cls_for(el), v)
    if r.ok:
        return F('text-accepted-on-type-without-character-content', t, inp, 'constructor accepted %r' % v, 'raises')
    r0 = call(cls_for(el))
    if r0.ok:
        r = call(setattr, r0.value, 'value_', v)
        if r.ok:
            return F('text-accepted-on-type-without-character-content', t, inp, 'value_ assignment accepted', 'raises')
    return None


def value_from_key(k):
    if k in TABLE:
        return TABLE[k]
    return eval(k, {'Decimal': Decimal, 'Fraction': Fraction, 'nan': float('nan'), 'inf': float('inf')})


def warm_up(seed):
    import random
    order = [t for t in lexical.all_simple_type_names() if t != 'xs:Name']
    random.Random(seed).shuffle(order)
    for t in order:
        vs = lexical.valid_texts(t)
        ok, pv = lexical.python_value_for(t, vs[0])
        c = type_class(t)
        if c is not None and ok:
            call(c, pv)


def replay_case(rec):
    inp = rec['input']
    if inp.get('after_warm_up') is not None:
        warm_up(inp['after_warm_up'])
    if inp['side'] == 'no-text':
        return check_no_text(inp['element'], inp['value'])
    t = rec['type']
    if inp['side'] == 'acceptance':
        return check_acceptance(t, inp['vehicle'], inp['text'])
    return check_emission(t, inp['vehicle'], value_from_key(inp['value']))[0]


def all_literals():
    out = []
    for t in lexical.all_simple_type_names():
        en = lexical.info(t).enumeration
        for e in en or []:
            if e not in out:
                out.append(e)
    return out


def shards(ctx):
    types = lexical.all_simple_type_names()
    jobs = [{'mode': 'types', 'types': part, 'warm': i % 2 == 1} for i, part in enumerate(gen.chunk(types, 12))]
    s = schema()
    notext = sorted(el for el, t in s.element_type.items() if s.content_kind(t) in ('empty', 'elements'))
    jobs += [{'mode': 'no-text', 'elements': part} for part in gen.chunk(notext, 2)]
    for i in range(8):
        jobs.append({'mode': 'random', 'index': i})
    return jobs


def bound_numbers(t):
    ti = lexical.info(t)
    out = []
    if ti.union is None and ti.primitive == 'decimal':
        for b in (ti.min_inc, ti.max_inc, ti.min_exc, ti.max_exc):
            if b is not None:
                for d in (-1, 0, 1):
                    out.append(int(b) + d)
                    out.append(float(b) + d)
                    out.append(float(b) + d * 0.001)
    return out


def run_shard(ctx, shard, acc):
    s = schema()
    if shard['mode'] == 'types':
        lits = all_literals()
        real_fail = acc.fail

        def tagged_fail(f, raise_=True):
            f['input']['after_warm_up'] = ctx.seed
            return real_fail(f, raise_=raise_)
        acc.fail = tagged_fail
        if shard.get('warm'):
            # half of the shards first instantiate EVERY simple-type class once (seed-dependent order), the other half
            # meet their types in a pristine process: validation must not depend on which types were used before
            warm_up(ctx.seed)
            acc.count('shards-after-warm-up')
        for t in shard['types']:
            if t == 'xs:Name':
                continue
            vs = lexical.valid_texts(t, limit=0)
            for veh in ('class', 'element', 'attribute', 'attribute-overwrite'):
                # emission: panel + bounds + near misses + valid samples offered as str
                vals = list(PANEL) + bound_numbers(t) + lexical.invalid_texts(t) + vs
                for v in vals:
                    f, a = check_emission(t, veh, v)
                    if a is None:
                        if veh == 'attribute-overwrite':
                            continue          # no equal value of another type to overwrite: next value
                        break
                    acc.case({'side': 'emission', 'vehicle': veh, 'type': t, 'value': key(v)},
                             key(v) not in CANONICAL, 0)
                    acc.count('emission-accepted' if a else 'emission-rejected')
                    if f:
                        acc.fail(f, raise_=False)
                # acceptance: oracle-valid samples in the documented representation
                for txt in vs:
                    if veh == 'attribute-overwrite' or (veh != 'class' and offer(t, veh, 0)[0] is None):
                        break
                    f = check_acceptance(t, veh, txt)
                    acc.case({'side': 'acceptance', 'vehicle': veh, 'type': t, 'text': txt}, False, 0)
                    if f:
                        acc.fail(f, raise_=False)
            # literal cross product on the class (exhaustive): accepted <=> valid
            for L in lits:
                okv = lexical.valid(t, L) and lexical.normalise(t, L) == L
                if okv:
                    f = check_acceptance(t, 'class', L)
                else:
                    f, _ = check_emission(t, 'class', L)
                acc.case({'side': 'literal', 'type': t, 'literal': L}, not okv or True, 0)
                acc.count('literal-pairs')
                if f:
                    acc.fail(f, raise_=False)
        return
    if shard['mode'] == 'no-text':
        for el in shard['elements']:
            for v in NO_TEXT_VALUES:
                acc.case({'side': 'no-text', 'element': el, 'value': v}, True, 0)
                acc.count('no-text')
                f = check_no_text(el, v)
                if f:
                    acc.fail(f, raise_=False)
        return
    types = [t for t in lexical.all_simple_type_names() if t != 'xs:Name']
    numbers = st.one_of(st.integers(-10 ** 6, 10 ** 6), st.integers(-20, 200),
                        st.floats(allow_nan=True, allow_infinity=True),
                        st.floats(-200, 200), st.decimals(-1000, 1000, places=3).map(float),
                        st.booleans())
    strings = st.one_of(st.text(st.characters(min_codepoint=0x20, max_codepoint=0x2FF), max_size=8),
                        st.sampled_from(all_literals()),
                        st.from_regex(r'[ \t]?[#A-Fa-f0-9,. -]{0,9}[ ]?', fullmatch=True))

    def body(data):
        t = data.draw(st.sampled_from(types))
        veh = data.draw(st.sampled_from(['class', 'element', 'attribute']))
        v = data.draw(st.one_of(numbers, strings))
        f, a = check_emission(t, veh, v)
        if a is None:
            return
        acc.case({'side': 'emission', 'vehicle': veh, 'type': t, 'value': key(v)}, True, 0)
        acc.count('emission-accepted' if a else 'emission-rejected')
        if f:
            acc.fail(f)
        if isinstance(v, str) and lexical.valid(t, v) and lexical.normalise(t, v) == v:
            f = check_acceptance(t, veh, v)
            if f:
                acc.fail(f)

    hyp_search(acc, body, mix(ctx.seed, 'C05', shard['index']), ctx.budget(3000, 60000))
