"""C06 - no child is ever lost, duplicated or orphaned."""
import xml.etree.ElementTree as ET

from hypothesis import strategies as st

from .. import gen
from ..driver import call
from ..history import Run, draw_op
from ..oracle.schema import schema
from ..run import hyp_search, mix
import itertools

from .c01 import enum_histories, enum_word_removals

RULE = ('(a) bounded-exhaustive: ALL histories of <=3 ops over add / remove / dot-None / to_string on a deterministic '
        'symbol subset of every type; (b) Hypothesis-drawn adaptive histories over the full op set incl. failing ops, '
        'forward adds, replacements, to_string(intelligent_choice) and dedicated re-homing shapes (same name beyond '
        'one leaf, removal inside duplicated branches).  Model-based invariant after EVERY op: insertion-ordered view '
        '== reference list (identity, order); schema-ordered view is a permutation of it; every held child reports '
        'the element as parent, removed/replaced-out children report None; when to_string returns, the multiset of '
        'serialised child tags equals the multiset of held names.  Non-trivial = >=1 successful remove/replace/'
        'dot-None and (a name held twice or a failed op); distinct by (element, ops).')
ASSUMPTIONS = ['the reference list is updated only by calls that returned normally, with the documented semantics of '
               'add_child / remove / replace_child / xml_* assignment']
EXHAUSTIVE = False


def invariant(run, with_string=None):
    """returns (kind, observed) or None"""
    e = run.e
    want = [run.label(c) for c in run.model]
    r = call(e.get_children, False)
    if not r.ok:
        return 'get-children-failed', r.etype
    un = [run.label(c) for c in r.value]
    if un != want:
        return 'insertion-view-differs', {'got': un, 'want': want}
    r = call(e.get_children, True)
    if not r.ok:
        return 'get-children-failed', r.etype
    od = [run.label(c) for c in r.value]
    if sorted(od) != sorted(want):
        return 'ordered-view-not-a-permutation', {'got': od, 'want': want}
    for c in run.model:
        p = call(c.get_parent)
        if not p.ok or p.value is not e:
            return 'child-does-not-report-parent', run.label(c)
    for c in run.gone:
        p = call(c.get_parent)
        if not p.ok or p.value is not None:
            return 'removed-child-still-reports-parent', run.label(c)
    if with_string is not None and with_string.ok:
        try:
            tags = sorted(c.tag for c in ET.fromstring(with_string.value))
        except ET.ParseError as ex:
            return 'output-not-well-formed', str(ex)
        if tags != sorted(run.names()):
            return 'serialised-children-differ', {'got': tags, 'want': sorted(run.names())}
    return None


def F(run, bad, site=None):
    return {'kind': bad[0], 'type': run.tkey, 'site': site, 'input': {'element': run.el, 'ops': run.ops},
            'observed': bad[1], 'expected': 'both views equal the children added minus those removed'}


def nontrivial(run):
    names = run.names()
    dup = len(set(names)) < len(names) or 'dup-seen' in run.flags
    return bool({'removed', 'replaced'} & run.flags) and (dup or 'failed' in run.flags)


def step(run, op):
    r = run.apply(op)
    names = run.names()
    if len(set(names)) < len(names):
        run.flags.add('dup-seen')
    bad = invariant(run, r if op[0] == 'to_string' else None)
    if bad:
        return F(run, bad, r.site if r is not None and not r.ok else None)
    return None


def execute(el, ops):
    run = Run(el)
    if run.e is None:
        return run, None
    for op in ops:
        f = step(run, op)
        if f:
            return run, f
    return run, None


def replay_case(rec):
    inp = rec['input']
    run, f = execute(inp['element'], [list(o) for o in inp['ops']])
    return f


WEIGHTS = {'add': 10, 'add_fwd': 2, 'remove': 4, 'remove_nonchild': 1, 'replace': 2, 'replace_nonchild': 1,
           'dot_inst': 2, 'dot_val': 1, 'dot_none': 3, 'to_string': 3, 'replace_self': 1, 'add_again': 1}


def shards(ctx):
    te = gen.types_and_elements()
    jobs = [{'mode': 'exh', 'types': part} for part in gen.chunk(te, 16)]
    for i in range(16):
        jobs.append({'mode': 'random', 'index': i})
    return jobs


def run_shard(ctx, shard, acc):
    if shard['mode'] == 'exh':
        for t, els in shard['types']:
            for ops in itertools.chain(enum_histories(t, 3, 8 if ctx.quick else 12),
                                       enum_word_removals(t, 4, 150 if ctx.quick else 1500)):
                run, f = execute(els[0], ops + [['to_string', 1]])
                if run.e is None:
                    break
                acc.case({'element': run.el, 'ops': run.ops}, nontrivial(run), len(run.ops))
                if f:
                    acc.fail(f, raise_=False)
        return
    te = gen.types_and_elements(all_elements=not ctx.quick)
    maxops = 12 if ctx.quick else 30

    def body(data):
        t, els = data.draw(st.sampled_from(te))
        el = data.draw(st.sampled_from(els))
        run = Run(el)
        if run.e is None:
            return
        shape = data.draw(st.integers(0, 3))
        # shape 0: dedicated re-homing - pile the same symbol beyond one leaf, then remove from the middle
        bias = {'prefix': 6, 'compatible': 5, 'incompatible': 2, 'foreign': 1}
        n = data.draw(st.integers(1, maxops))
        for i in range(n):
            if shape == 0 and run.model and data.draw(st.integers(0, 2)) == 0:
                op = ['add', data.draw(st.sampled_from(sorted(set(run.names()))))]
            else:
                op = draw_op(data, run, WEIGHTS, bias)
            f = step(run, op)
            if f:
                acc.case({'element': run.el, 'ops': run.ops}, nontrivial(run), len(run.ops))
                acc.fail(f)
        for ic in (1, 0):
            f = step(run, ['to_string', ic])
            if f:
                acc.case({'element': run.el, 'ops': run.ops}, nontrivial(run), len(run.ops))
                acc.fail(f)
        acc.case({'element': run.el, 'ops': run.ops}, nontrivial(run), len(run.ops))
        for fl in sorted(run.flags):
            acc.count(fl)

    hyp_search(acc, body, mix(ctx.seed, 'C06', shard['index']), ctx.budget(800, 20000))
