"""C07 - add_child never accepts a child that makes the element impossible to complete."""
import itertools

from hypothesis import strategies as st

from .. import gen
from ..driver import call, stub
from ..history import Run, draw_symbol
from ..oracle.schema import parikh, schema
from ..run import hyp_search, mix
from .c01 import symbol_subset

RULE = ('add-only histories in arbitrary order (add_child, add_child with forward, xml_* instance assignment), also with read-only to_string() calls between the additions (the enumerated histories with reads are then finished with the completion computed by the oracle and must end like the same additions without the reads), and additions after a removal (add a, add a, remove one, add b for all a, b of the subset): (a) ALL sequences of <=3 adds '
        'over a deterministic 6-symbol subset of every type; (b) Hypothesis-drawn adaptive sequences (<=14 adds quick, '
        '<=30 thorough) where each next symbol is drawn from the oracle classes prefix / compatible / incompatible / '
        'foreign.  Oracle after every add that returned normally: completable(multiset of held names) on the '
        'independent DFA (exists an accepted word whose Parikh image dominates the multiset).  Non-trivial = >=2 '
        'accepted adds and >=1 offered symbol the oracle classed incompatible; distinct by (element, ops).')
ASSUMPTIONS = ['"can still be extended to a set that serialises" is judged by the oracle completion search, as the '
               'property\'s "equivalently" clause states; C02/C12 own whether the completion is then accepted']
EXHAUSTIVE = False


def F(run, observed):
    return {'kind': 'dead-end-accepted', 'type': run.tkey, 'site': None,
            'input': {'element': run.el, 'ops': run.ops}, 'observed': observed,
            'expected': 'rejected when offered: no schema-valid arrangement contains the held children'}


def step(run, op):
    r = run.apply(op)
    if r is not None and r.ok and run.dfa is not None:
        # what the element itself reports as held (a refused forward add must not have smuggled a child in)
        rc = call(run.e.get_children, True)
        names = [c.name for c in rc.value] if rc.ok else run.names()
        for held in (parikh(run.names()), parikh(names)):
            if not run.dfa.completable(held):
                return F(run, {'held': sorted(held.items())})
    return None


def completion_outcome(run):
    """supply the oracle's shortest completion of the held children and serialise: 'ok' or what refused"""
    if run.dfa is None or not run.names():
        return 'n/a'
    w = run.dfa.completion_of(parikh(run.names()))
    if w is None:
        return 'n/a'
    have = parikh(run.names())
    for a in w:
        if have.get(a, 0) > 0:
            have[a] -= 1
            continue
        r = call(run.e.add_child, stub(a))
        if not r.ok:
            return 'refused %s: %s' % (a, r.etype)
    r = call(run.e.to_string)
    return 'ok' if r.ok else 'to_string: %s' % r.etype


def execute(el, ops):
    run = Run(el)
    if run.e is None:
        return run, None
    for op in ops:
        f = step(run, op)
        if f:
            return run, f
    return run, None


def replay_case(rec):
    inp = rec['input']
    ops = [list(o) for o in inp['ops']]
    run, f = execute(inp['element'], ops)
    if f is None and rec.get('kind') == 'read-changes-completability':
        plain, _ = execute(inp['element'], [o for o in ops if o[0] != 'to_string'])
        oa, ob = completion_outcome(run), completion_outcome(plain)
        if oa != ob:
            return {'kind': 'read-changes-completability', 'type': run.tkey, 'site': None, 'input': inp,
                    'observed': {'with reads': oa, 'without reads': ob}, 'expected': 'the same outcome'}
    return f


def nontrivial(run):
    acc_adds = sum(1 for op, res in zip(run.ops, run.results) if res[0] == 'ok' and op[0] != 'to_string')
    return acc_adds >= 2 and 'offer-incompatible' in run.flags


def shards(ctx):
    te = gen.types_and_elements()
    jobs = [{'mode': 'exh', 'types': part} for part in gen.chunk(te, 16)]
    for i in range(16):
        jobs.append({'mode': 'random', 'index': i})
    return jobs


def run_shard(ctx, shard, acc):
    s = schema()
    if shard['mode'] == 'exh':
        for t, els in shard['types']:
            syms = symbol_subset(t, 6 if ctx.quick else 8)
            dfa = s.dfa(t)
            for n in (1, 2, 3):
                for combo, read in itertools.product(itertools.product(syms, repeat=n), (False, True)):
                    if read and n == 1:
                        continue
                    # variant: a read-only requirement check (to_string) between the additions
                    ops = []
                    for a in combo:
                        ops.append(['add', a])
                        if read:
                            ops.append(['to_string', 0])
                    run, f = execute(els[0], ops)
                    if run.e is None:
                        break
                    if read and f is None:
                        # a read must not decide whether the accepted children can still be completed: the same
                        # additions without the reads, both finished with the oracle's completion
                        plain, _ = execute(els[0], [o for o in ops if o[0] != 'to_string'])
                        if plain.names() == run.names():
                            oa, ob = completion_outcome(run), completion_outcome(plain)
                            if oa != ob:
                                f = {'kind': 'read-changes-completability', 'type': run.tkey, 'site': None,
                                     'input': {'element': run.el, 'ops': run.ops},
                                     'observed': {'with reads': oa, 'without reads': ob},
                                     'expected': 'the same outcome'}
                    # classify offers for the non-triviality rule
                    held = {}
                    for a, res in zip(combo, [r_ for o_, r_ in zip(run.ops, run.results) if o_[0] == 'add']):
                        h2 = dict(held)
                        h2[a] = h2.get(a, 0) + 1
                        if not dfa.completable(h2):
                            run.flags.add('offer-incompatible')
                        if res[0] == 'ok':
                            held = h2
                    acc.case({'element': run.el, 'ops': run.ops}, nontrivial(run), n)
                    if f:
                        acc.fail(f, raise_=False)
            # additions AFTER a removal: two of a kind, one taken away again, then every other symbol is offered -
            # what is accepted must still be completable together with the child that stayed
            for a in syms:
                for b in syms:
                    run, f = execute(els[0], [['add', a], ['add', a], ['remove', 0], ['add', b]])
                    if run.e is None:
                        break
                    if not dfa.completable({a: 1, b: 1} if a != b else {a: 2}):
                        run.flags.add('offer-incompatible')
                    acc.case({'element': run.el, 'ops': run.ops}, nontrivial(run), 4)
                    acc.count('after-removal')
                    if f:
                        acc.fail(f, raise_=False)
        return
    te = gen.types_and_elements(all_elements=not ctx.quick)
    maxops = 14 if ctx.quick else 30

    def body(data):
        t, els = data.draw(st.sampled_from(te))
        el = data.draw(st.sampled_from(els))
        run = Run(el)
        if run.e is None:
            return
        n = data.draw(st.integers(2, maxops))
        for _ in range(n):
            a, c = draw_symbol(data, run, {'prefix': 4, 'compatible': 5, 'incompatible': 4, 'foreign': 1})
            run.flags.add('offer-' + c)
            z = data.draw(st.integers(0, 6))
            if z == 6:
                # a read between two additions: serialising (either mode) must not change what is accepted next
                step(run, ['to_string', data.draw(st.integers(0, 1))])
                run.flags.add('read-between-adds')
            if c != 'foreign' and z == 0 and a not in run.names():
                op = ['dot_inst', a]
            elif c != 'foreign' and z == 1:
                # a forwarded add; whether it is accepted or refused, what the element holds afterwards (by its own
                # account) must stay completable
                op = ['add_fwd', a, data.draw(st.integers(0, max(run.leaf_counts.get(a, 1) - 1, 0)))]
            else:
                op = ['add', a]
            f = step(run, op)
            if f:
                acc.case({'element': run.el, 'ops': run.ops}, nontrivial(run), len(run.ops))
                acc.fail(f)
        acc.case({'element': run.el, 'ops': run.ops}, nontrivial(run), len(run.ops))
        for fl in sorted(run.flags):
            acc.count(fl)

    hyp_search(acc, body, mix(ctx.seed, 'C07', shard['index']), ctx.budget(800, 20000))
