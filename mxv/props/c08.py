"""C08 - the library's own output re-parses to the same document."""
import os
import tempfile
import xml.etree.ElementTree as ET
from decimal import Decimal, InvalidOperation

from hypothesis import strategies as st

from .. import driver, gen
from ..driver import call
from ..oracle import lexical
from ..oracle.schema import schema
from ..run import hyp_search, mix
from . import c14

RULE = ('documents built through the API from oracle derivations (any element as root, depth<=5, all nodes checked and '
        'complete; random subsets of attributes with oracle-valid values; integer types as int, decimal types as int '
        'and float, string content with non-ASCII characters and - separately classified - surrounding white space): '
        'to_string()/write() -> file -> parse_musicxml -> to_string().  Oracle: typed infoset comparison driven by '
        'the oracle\'s types (same elements, child order, attribute sets; xs:string-derived values exact, '
        'token-derived after white-space collapse, numeric types by Decimal value - integer types must keep an integer lexical form); a '
        'second round trip is byte-identical to the first; on the re-parsed tree integer-typed values are int and '
        'numeric values equal the originals.  Non-trivial = >=3 levels, >=1 attribute, >=1 decimal-typed and >=1 '
        'integer-typed value; distinct by plan.')
ASSUMPTIONS = ['documents whose derivation needs a type inside the open C02 findings, or an attribute inside the open '
               'attribute findings, are excluded by construction and counted']
EXHAUSTIVE = False


def draw_value(data, tt, flags):
    ti = lexical.info(tt)
    prim = 'union' if ti.union is not None else ti.primitive
    if prim == 'string' and ti.enumeration is None and not ti.patterns and \
            not any(b in ti.chain for b in ('xs:NMTOKEN', 'xs:Name', 'xs:language')) and not ti.min_length:
        base = data.draw(st.sampled_from(['a', 'hello world', 'Ünïcødé ♯', '𝄞 clef', 'x < y & z', 'tab\there',
                                          'two  spaces', 'q"uote\'s', 'ß', '1', '1.5', '001']))
        if data.draw(st.integers(0, 5)) == 0:
            base = data.draw(st.sampled_from([' ', '  ', '\n'])) + base + data.draw(st.sampled_from(['', ' ', '\t']))
            flags.add('surrounding-whitespace')
        elif data.draw(st.integers(0, 11)) == 0:
            # white space only: significant for xs:string content (a lyric text of one blank)
            base = data.draw(st.sampled_from([' ', '  ', ' \n ', '\t']))
            flags.add('surrounding-whitespace')
            flags.add('whitespace-only')
        return base
    txt = data.draw(st.sampled_from(lexical.valid_texts(tt)))
    ok, pv = lexical.python_value_for(tt, txt)
    if not ok:
        return None
    if isinstance(pv, int) and not isinstance(pv, bool) and ti.union is None and ti.primitive == 'decimal':
        if ti.is_integer:
            flags.add('integer-typed')
        else:
            flags.add('decimal-typed')
            if data.draw(st.integers(0, 1)) and lexical.valid(tt, str(float(pv))):
                pv = float(pv)
    elif isinstance(pv, float):
        flags.add('decimal-typed')
    if ti.union is None and ti.primitive == 'decimal' and not ti.is_integer and data.draw(st.integers(0, 3)) == 0:
        # floats of all magnitudes inside the type's bounds (tiny values need many fractional digits, large ones none)
        lo = ti.min_inc if ti.min_inc is not None else (ti.min_exc if ti.min_exc is not None else None)
        hi = ti.max_inc if ti.max_inc is not None else None
        f = data.draw(st.one_of(
            st.sampled_from([2.5e-07, 1.25e-05, 3.125e-06, 1.0000001e-05, 0.1 + 0.2, 1e16, 123456.789012345, 1e-10]),
            st.floats(min_value=float(lo) if lo is not None else -1e12, max_value=float(hi) if hi is not None else 1e12,
                      allow_nan=False, allow_infinity=False)))
        if data.draw(st.booleans()) and lo is None:
            f = -f
        from decimal import Decimal as _D
        if lexical.valid(tt, format(_D(repr(f)), 'f')):
            flags.add('decimal-typed')
            flags.add('fine-float')
            return f
    return pv


def draw_doc(data, el, depth, flags, budget):
    s = schema()
    t = s.element_type[el]
    if t in c14.EXCLUDED_TYPES:
        return None
    budget[0] -= 1
    plan = {'element': el, 'checked': True, 'ctor': {}, 'post': [], 'value': None, 'kids': []}
    attrs = c14.usable_attrs(t)
    for a in attrs:
        if a['required'] or (budget[0] > 0 and data.draw(st.integers(0, 4)) == 0):
            v = a['fixed'] or draw_value(data, a['type'], flags)
            if v is None:
                if a['required']:
                    return None
                continue
            plan['ctor'][a['qname']] = v
            flags.add('attribute')
    tt = s.text_type(t)
    if tt is not None:
        v = draw_value(data, tt, flags)
        if v is None:
            v = driver.stub_value(el)
        plan['value'] = [v]
    if s.content_kind(t) == 'elements':
        dfa = s.dfa(t)
        if depth > 0 and budget[0] > 0:
            word = gen.draw_word(data, dfa, max_len=data.draw(st.sampled_from([2, 4, 6])), stop_bias=2)
        else:
            word = tuple(dfa.shortest_completion(0))
        for a in word:
            k = draw_doc(data, a, depth - 1, flags, budget)
            if k is None:
                return None
            plan['kids'].append(k)
    return plan


def depth_of(plan):
    return 1 + max([depth_of(k) for k in plan['kids']] or [0])


def attr_types(el):
    s = schema()
    return {a['qname'].split(':')[-1]: a['type'] for a in s.attributes_of(s.element_type[el])}


def same_value(tt, a, b):
    """typed equality of two lexical forms"""
    if a == b:
        return True
    if a is None or b is None:
        return (a or '') == (b or '')
    ti = lexical.info(tt) if tt else None
    if ti is None:
        return a.strip() == b.strip()
    kinds = [lexical.info(m) for m in ti.union] if ti.union is not None else [ti]
    for k in kinds:
        if k.primitive == 'decimal':
            # numeric spelling is the permitted difference (4 / 4.0 / +4); that integer types STAY integers is
            # checked on the re-parsed tree (typed_values_ok) and, for the text, by requiring an integer lexical form
            try:
                if Decimal(a.strip()) == Decimal(b.strip()) and \
                        (not k.is_integer or lexical.RX_INTEGER.fullmatch(b.strip())):
                    return True
            except InvalidOperation:
                pass
        elif k.primitive == 'string' and k.whitespace == 'collapse':
            if lexical.collapse(a) == lexical.collapse(b):
                return True
    return False


def compare(n1, n2, path=''):
    """typed infoset comparison of two xml.etree nodes"""
    s = schema()
    here = '%s/%s' % (path, n1.tag)
    if n1.tag != n2.tag:
        return {'at': here, 'tag': [n1.tag, n2.tag]}
    if [c.tag for c in n1] != [c.tag for c in n2]:
        return {'at': here, 'children': [[c.tag for c in n1], [c.tag for c in n2]]}
    if set(n1.attrib) != set(n2.attrib):
        return {'at': here, 'attribute-names': [sorted(n1.attrib), sorted(n2.attrib)]}
    t = s.element_type.get(n1.tag)
    at = attr_types(n1.tag) if t else {}
    for k in n1.attrib:
        if not same_value(at.get(k), n1.attrib[k], n2.attrib[k]):
            return {'at': here, 'attribute': k, 'values': [n1.attrib[k], n2.attrib[k]]}
    if len(n1) == 0:
        tt = s.text_type(t) if t else None
        if not same_value(tt, n1.text, n2.text):
            return {'at': here, 'text': [n1.text, n2.text], 'type': tt}
    for a, b in zip(n1, n2):
        d = compare(a, b, here)
        if d:
            return d
    return None


def roundtrip(text):
    from musicxml.parser.parser import parse_musicxml
    # every document of a worker process is written to the SAME path (as an application saving and re-opening one file
    # does): what is read back must be what was written last
    p = os.path.join(tempfile.gettempdir(), 'mxv_c08_%d.xml' % os.getpid())
    try:
        with open(p, 'w', encoding='utf-8') as f:
            f.write('<?xml version="1.0" encoding="UTF-8" standalone="no"?>\n' + text)
        r = call(parse_musicxml, p)
    finally:
        if os.path.exists(p):
            os.unlink(p)
    return r


def typed_values_ok(e, node_path=''):
    """on the re-parsed tree: integer-typed values are int"""
    s = schema()
    t = s.element_type[e.name]
    tt = s.text_type(t)
    if tt is not None and e.value_ not in (None, ''):
        ti = lexical.info(tt)
        if ti.union is None and ti.primitive == 'decimal' and ti.is_integer:
            if not isinstance(e.value_, int) or isinstance(e.value_, bool):
                return {'at': node_path + '/' + e.name, 'value': repr(e.value_), 'expected': 'int'}
    at = {a['qname'].split(':')[-1]: a['type'] for a in s.attributes_of(t)}
    for k, v in dict(e.attributes).items():
        ti = lexical.info(at[k]) if k in at else None
        if ti is not None and ti.union is None and ti.primitive == 'decimal' and ti.is_integer:
            if not isinstance(v, int) or isinstance(v, bool):
                return {'at': node_path + '/' + e.name + '@' + k, 'value': repr(v), 'expected': 'int'}
    for c in call(e.get_children, True).value or []:
        d = typed_values_ok(c, node_path + '/' + e.name)
        if d:
            return d
    return None


def values_kept(a, b, path=''):
    """numeric values of the ORIGINAL tree (ints, floats in element content and attributes) equal those of the
    re-parsed tree - the damage of a lossy first write is invisible when only the two outputs are compared"""
    here = path + '/' + a.name

    def same(x, y):
        if isinstance(x, bool) or isinstance(y, bool):
            return x == y
        if isinstance(x, (int, float)) and isinstance(y, (int, float)):
            return float(x) == float(y) and (not isinstance(x, int) or not isinstance(y, int) or x == y)
        return True      # non-numeric values are compared textually by compare()
    if not same(a.value_, b.value_):
        return {'at': here, 'original': repr(a.value_), 'reparsed': repr(b.value_)}
    aa, ba = dict(a.attributes), dict(b.attributes)
    for k in aa:
        if k in ba and not same(aa[k], ba[k]):
            return {'at': here + '@' + k, 'original': repr(aa[k]), 'reparsed': repr(ba[k])}
    ka = call(a.get_children, True).value or []
    kb = call(b.get_children, True).value or []
    for x, y in zip(ka, kb):
        d = values_kept(x, y, here)
        if d:
            return d
    return None


def check(plan, flags=()):
    s = schema()
    t = s.element_type[plan['element']]
    inp = {'plan': plan, 'flags': sorted(flags)}

    def F(kind, observed, site=None):
        return {'kind': kind, 'type': t, 'site': site, 'input': inp, 'observed': observed,
                'expected': 'same infoset after write -> parse -> to_string'}
    rb = call(c14.build, plan)
    if not rb.ok:
        return None, 'unbuildable'
    r1 = call(rb.value.to_string)
    if not r1.ok:
        return None, 'incomplete'
    rp = roundtrip(r1.value)
    if not rp.ok:
        return F('own-output-not-parsable', '%s: %s' % (rp.etype, rp.msg[:160]), rp.site), 'emitted'
    r2 = call(rp.value.to_string)
    if not r2.ok:
        return F('reparsed-tree-not-serialisable', '%s: %s' % (r2.etype, r2.msg[:160]), r2.site), 'emitted'
    d = compare(ET.fromstring(r1.value), ET.fromstring(r2.value))
    if d:
        return F('round-trip-changes-document', d), 'emitted'
    d = typed_values_ok(rp.value)
    if d:
        return F('integer-typed-value-not-int-after-parse', d), 'emitted'
    d = values_kept(rb.value, rp.value)
    if d:
        return F('numeric-value-changed-by-round-trip', d), 'emitted'
    rp2 = roundtrip(r2.value)
    if not rp2.ok:
        return F('own-output-not-parsable', 'second trip %s: %s' % (rp2.etype, rp2.msg[:160]), rp2.site), 'emitted'
    r3 = call(rp2.value.to_string)
    if not r3.ok or r3.value != r2.value:
        return F('second-round-trip-not-identical', {'first': r2.value[:300], 'second': (r3.value or '')[:300]
                                                      if r3.ok else r3.etype}), 'emitted'
    return None, 'emitted'


def float_warm_up():
    """order independence: serialise, as decimal content, the whole-number FLOAT twin of every integer the generators
    can draw (and of 0..128); what an int is written as afterwards must not depend on that history (half of the
    shards do this first, the other half meet the integers first)"""
    ints = set(range(-2, 129))
    for tn in lexical.all_simple_type_names():
        ti = lexical.info(tn)
        if ti.union is None and ti.primitive == 'decimal':
            for txt in lexical.valid_texts(tn):
                ok, pv = lexical.python_value_for(tn, txt)
                if ok and isinstance(pv, int) and abs(pv) < 10 ** 15:
                    ints.add(pv)
    off = driver.cls_for('offset')
    for n in sorted(ints):
        call(lambda n=n: off(float(n)).to_string())


def replay_case(rec):
    inp = rec['input']
    if inp.get('after_float_warm_up'):
        float_warm_up()
    return check(inp['plan'], inp.get('flags', ()))[0]


def shards(ctx):
    return [{'index': i} for i in range(16)]


ROOTS = ['score-partwise', 'part', 'part', 'measure', 'measure', 'measure', 'note', 'note', 'note', 'attributes',
         'attributes', 'direction',
         'barline', 'print', 'defaults', 'notations', 'technical', 'forward', 'backup', 'figured-bass',
         'staff-details', 'measure-style', 'appearance', 'page-layout', 'system-layout', 'part-group',
         'midi-instrument', 'frame', 'degree', 'listening', 'grouping', 'for-part', 'time', 'tuplet']


def run_shard(ctx, shard, acc):
    s = schema()
    names = sorted(n for n, t in s.element_type.items() if t not in c14.EXCLUDED_TYPES)
    roots = [r for r in ROOTS if r in names]

    warm = shard['index'] % 2 == 1
    if warm:
        float_warm_up()
        acc.count('shards-after-float-warm-up')

    def body(data):
        el = data.draw(st.sampled_from(roots)) if data.draw(st.integers(0, 4)) > 0 else data.draw(st.sampled_from(names))
        flags = set()
        plan = draw_doc(data, el, data.draw(st.integers(3, 4)), flags, [90 if ctx.quick else 200])
        if plan is None:
            acc.count('excluded-by-known-finding-scope')
            return
        f, status = check(plan, flags)
        acc.count(status)
        if status == 'emitted':
            nt = depth_of(plan) >= 3 and {'attribute', 'decimal-typed', 'integer-typed'} <= flags
            acc.case({'plan': plan, 'flags': sorted(flags)}, nt, len(str(plan)))
            for fl in flags:
                acc.count(fl)
        if f:
            if warm:
                f['input']['after_float_warm_up'] = 1
            acc.fail(f)

    hyp_search(acc, body, mix(ctx.seed, 'C08', shard['index']), ctx.budget(700, 5000))
