"""C09 - any schema-valid MusicXML file is read without loss; nothing is silently dropped."""
import copy
import glob
import os
import tempfile
import xml.etree.ElementTree as ET
from collections import Counter
from decimal import Decimal, InvalidOperation

from hypothesis import strategies as st

from .. import driver, gen
from ..driver import call
from ..oracle import lexical
from ..oracle.schema import XLINK_NS, XML_NS, clark, schema
from ..run import hyp_search, mix
from . import c08, c14

RULE = ('(a) schema-valid documents generated WITHOUT the library (oracle derivation -> xml.etree tree -> file; UTF-8 '
        'with declaration, UTF-16, and no-declaration variants; decimal values in several spellings; ~15% of the '
        'budget deliberately inside the scopes of open findings: xml:lang, xml:space, xlink:*, name=, anyURI, matcher '
        'types), plus the repository\'s real exports; oracle: parse_musicxml succeeds and the typed infoset comparison '
        'of C08 finds input == re-serialisation.  (b) arbitrary documents: structure-aware single mutations of valid '
        'documents (delete / duplicate / move / rename a node, unknown attribute, unknown element, bad text, text on '
        'an element-only node) and - thorough tier - atheris byte-level mutation seeded with the corpus; oracle '
        '(no silent loss): parse_musicxml raises, or the multisets of element paths, (path, attribute, value) and '
        '(path, text) of the input are contained in those of the output.  Non-trivial: (a) the document uses a '
        'repeated group or a namespaced / name attribute; (b) the mutant is well-formed and was not rejected.')
ASSUMPTIONS = ['leading/trailing white space is generated only for xs:string-typed element content (significant per XML '
               'Schema: whiteSpace=preserve); token-derived content is compared after collapsing']
EXHAUSTIVE = False

NS_ATTRS = {'xml:lang', 'xml:space', 'name'}


def draw_doc(data, el, depth, flags, budget, inside):
    """oracle-only document plan {'element','attrs':{qname:text},'text':str|None,'kids':[...]}"""
    s = schema()
    t = s.element_type[el]
    if not inside and t in c14.EXCLUDED_TYPES:
        return None
    budget[0] -= 1
    plan = {'element': el, 'attrs': {}, 'text': None, 'kids': []}
    for a in s.attributes_of(t):
        q = a['qname']
        special = q.startswith('xlink:') or q in NS_ATTRS or a['type'] == 'xs:anyURI'
        if special and not inside:
            if a['required']:
                return None
            continue
        if a['required'] or (budget[0] > 0 and data.draw(st.integers(0, 1 if (special and inside) else 5)) == 0):
            txt = a['fixed'] or data.draw(st.sampled_from(lexical.valid_texts(a['type'])))
            if not lexical.valid(a['type'], txt, strict=True):
                continue
            plan['attrs'][q] = spell(data, a['type'], txt, fixed=bool(a['fixed']))
            if special:
                flags.add('special-attribute')
    tt = s.text_type(t)
    if tt is not None:
        ti = lexical.info(tt)
        cands = [x for x in lexical.valid_texts(tt) if lexical.valid(tt, x, strict=True)
                 and (x == x.strip() or ti.union is not None or ti.primitive != 'string')]
        txt = data.draw(st.sampled_from(cands or ['a']))
        if ti.union is None and ti.primitive == 'string' and ti.enumeration is None and not ti.patterns \
                and 'xs:NMTOKEN' not in ti.chain and data.draw(st.integers(0, 2)) == 0:
            txt = data.draw(st.sampled_from(['Ünïcødé ♯', '𝄞 clef', 'x < y & z', 'q"uote\'s', 'two  inner', 'a',
                                             ' lead', 'trail ', '  both\t']))
            if txt != txt.strip():
                flags.add('surrounding-whitespace')
        plan['text'] = spell(data, tt, txt)
    if s.content_kind(t) == 'elements':
        dfa = s.dfa(t)
        if depth > 0 and budget[0] > 0:
            word = gen.draw_word(data, dfa, max_len=data.draw(st.sampled_from([2, 4, 7])), stop_bias=2)
        else:
            word = tuple(dfa.shortest_completion(0))
        if len(set(word)) < len(word):
            flags.add('repeated')
        for a in word:
            k = draw_doc(data, a, depth - 1, flags, budget, inside)
            if k is None:
                return None
            plan['kids'].append(k)
    return plan


# magnitudes whose float repr() carries an exponent: the serialiser has to expand them digit for digit
EXTREME_DECIMALS = ['0.0000001', '0.00000123', '-0.0000005', '0.000000015', '100000000000000000.0',
                    '-0.00001875', '12300000000000000000']


def spell(data, tt, txt, fixed=False):
    """alternative lexical spellings of a decimal value (all valid for the type); one non-fixed decimal in eight is
    replaced by a very small / very large magnitude of the same type"""
    ti = lexical.info(tt)
    if ti.union is None and ti.primitive == 'decimal':
        if not fixed and not ti.is_integer and data.draw(st.integers(0, 7)) == 0:
            ext = [x for x in EXTREME_DECIMALS if lexical.valid(tt, x, strict=True)]
            if ext:
                txt = data.draw(st.sampled_from(ext))
        alts = [txt]
        if not ti.is_integer and '.' not in txt:
            alts += [txt + '.0', txt + '.00']
        if not txt.startswith(('-', '+')):
            alts.append('+' + txt)
        alts = [a for a in alts if lexical.valid(tt, a)]
        return data.draw(st.sampled_from(alts))
    return txt


def to_et(plan):
    n = ET.Element(plan['element'])
    for q, v in plan['attrs'].items():
        n.set(clark(q), v)
    if plan['text'] is not None:
        n.text = plan['text']
    for k in plan['kids']:
        n.append(to_et(k))
    return n


def write_doc(root, variant):
    ET.register_namespace('xlink', XLINK_NS)
    fd, p = tempfile.mkstemp(suffix='.xml', prefix='mxv_c09_')
    os.close(fd)
    tree = ET.ElementTree(root)
    if variant == 'utf16':
        tree.write(p, encoding='utf-16', xml_declaration=True)
    elif variant == 'nodecl':
        tree.write(p, encoding='utf-8', xml_declaration=False)
    else:
        tree.write(p, encoding='utf-8', xml_declaration=True)
    return p


def parse_file(path):
    from musicxml.parser.parser import parse_musicxml
    return call(parse_musicxml, path)


def elements_of(plan, out=None):
    out = set() if out is None else out
    out.add(plan['element'])
    for k in plan['kids']:
        elements_of(k, out)
    return out


def attrs_of(plan, out=None):
    out = set() if out is None else out
    out.update(plan['attrs'])
    for k in plan['kids']:
        attrs_of(k, out)
    return out


def norm_ns(node):
    """library output has no namespace prefixes; map Clark names of xml:/xlink: to local names for comparison of the
    input with the output only where the oracle says so (never: prefixes are significant) - kept as is"""
    return node


def check_valid(plan, variant):
    s = schema()
    t = s.element_type[plan['element']]
    inp = {'mode': 'valid', 'plan': plan, 'variant': variant, 'elements': sorted(elements_of(plan)),
           'attributes': sorted(attrs_of(plan))}

    def F(kind, observed, site=None):
        return {'kind': kind, 'type': t, 'site': site, 'input': inp, 'observed': observed,
                'expected': 'parsed; re-serialisation equals the input (typed infoset comparison)'}
    root = to_et(plan)
    p = write_doc(root, variant)
    try:
        r = parse_file(p)
    finally:
        os.unlink(p)
    if not r.ok:
        return F('valid-document-rejected', '%s: %s' % (r.etype, r.msg[:200]), r.site)
    rs = call(r.value.to_string)
    if not rs.ok:
        return F('parsed-valid-document-not-serialisable', '%s: %s' % (rs.etype, rs.msg[:200]), rs.site)
    d = c08.compare(strip_clark(root), ET.fromstring(rs.value))
    if d:
        return F('valid-document-changed-by-reading', d)
    return None


def strip_clark(node):
    """comparison key for attributes: the library has no namespace support, its output can only carry local names;
    a difference in prefix is reported by comparing qualified names, so Clark names are kept here"""
    return node


# -- (b) no silent loss --------------------------------------------------------------------------------

def facts(node, path='', out=None):
    out = Counter() if out is None else out
    here = path + '/' + node.tag
    out[('el', here)] += 1
    for k, v in node.attrib.items():
        out[('at', here, k, canon_value(v))] += 1
    if node.text and node.text.strip():
        out[('tx', here, canon_value(node.text))] += 1
    for c in node:
        facts(c, here, out)
        if c.tail and c.tail.strip():
            out[('tx', here, canon_value(c.tail))] += 1
    return out


def canon_value(v):
    v = v.strip()
    try:
        d = Decimal(v)
        if d.is_finite():
            return 'num:' + format(d.normalize(), 'f')
    except InvalidOperation:
        pass
    return ' '.join(v.split())


def mutate(data, root):
    """one structure-aware mutation, in place; returns its name"""
    nodes = list(root.iter())
    parents = {c: p for p in nodes for c in p}
    s = schema()
    names = sorted(s.element_type)
    kind = data.draw(st.sampled_from(['delete', 'duplicate', 'move', 'rename', 'unknown-attr', 'unknown-element',
                                      'bad-text', 'text-on-parent', 'bad-attr-value', 'tail-text']))
    n = data.draw(st.sampled_from(nodes))
    if kind in ('delete', 'duplicate', 'move') and n is root:
        kind = 'rename'
    if kind == 'delete':
        parents[n].remove(n)
    elif kind == 'duplicate':
        p = parents[n]
        dup = copy.deepcopy(n)
        dup.tail = None
        p.insert(list(p).index(n), dup)
    elif kind == 'move':
        p = parents[n]
        p.remove(n)
        tgt = data.draw(st.sampled_from([x for x in root.iter() if x is not n]))
        tgt.insert(data.draw(st.integers(0, len(tgt))), n)
    elif kind == 'rename':
        n.tag = data.draw(st.sampled_from(names))
    elif kind == 'unknown-attr':
        n.set(data.draw(st.sampled_from(['bogus', 'data-x', 'Default-X', 'xmlns_foo'])), 'v')
    elif kind == 'unknown-element':
        n.append(ET.Element(data.draw(st.sampled_from(['bogus', 'Note', 'my-element', 'score-timewise']))))
    elif kind == 'bad-text':
        n.text = data.draw(st.sampled_from(['???', '-99999', '1e5', 'not a value', '12abc']))
    elif kind == 'text-on-parent':
        n.text = 'stray text'
    elif kind == 'bad-attr-value':
        if n.attrib:
            k = data.draw(st.sampled_from(sorted(n.attrib)))
            n.set(k, data.draw(st.sampled_from(['???', '-99999', 'not a value'])))
        else:
            n.set('id', 'has space')
    else:
        if len(n):
            n[0].tail = 'tail text'
        else:
            n.text = (n.text or '') + ' extra'
    return kind


def check_no_loss(xml_text, label):
    inp = {'mode': 'mutated', 'xml': xml_text, 'mutation': label}
    try:
        root = ET.fromstring(xml_text)
    except ET.ParseError:
        return None, 'not-well-formed'
    fd, p = tempfile.mkstemp(suffix='.xml', prefix='mxv_c09m_')
    with os.fdopen(fd, 'w', encoding='utf-8') as f:
        f.write(xml_text)
    try:
        r = parse_file(p)
    finally:
        os.unlink(p)
    if not r.ok:
        return None, 'rejected'
    rs = call(r.value.to_string)
    t = schema().element_type.get(root.tag, root.tag)
    if not rs.ok:
        return None, 'accepted-unserialisable'   # nothing was returned that lacks part of the input
    fi, fo = facts(root), facts(ET.fromstring(rs.value))
    missing = [k for k, c in fi.items() if fo.get(k, 0) < c]
    if missing:
        return {'kind': 'silent-loss', 'type': t, 'site': None, 'input': inp,
                'observed': {'missing': [list(m) for m in missing[:5]]},
                'expected': 'every element, attribute and text of the input appears in the output, or the parser raises'
                }, 'accepted'
    return None, 'accepted'


def replay_case(rec):
    inp = rec['input']
    if inp['mode'] == 'valid':
        return check_valid(inp['plan'], inp['variant'])
    if inp['mode'] == 'file':
        return check_file(inp['path'])
    return check_no_loss(inp['xml'], inp.get('mutation'))[0]


def check_file(relpath):
    path = os.path.join(os.path.dirname(driver.PKG_DIR.rstrip(os.sep)), relpath)
    inp = {'mode': 'file', 'path': relpath}
    r = parse_file(path)
    if not r.ok:
        return {'kind': 'valid-document-rejected', 'type': 'file', 'site': r.site, 'input': inp,
                'observed': '%s: %s' % (r.etype, r.msg[:200]), 'expected': 'parsed'}
    rs = call(r.value.to_string)
    if not rs.ok:
        return {'kind': 'parsed-valid-document-not-serialisable', 'type': 'file', 'site': rs.site, 'input': inp,
                'observed': '%s: %s' % (rs.etype, rs.msg[:200]), 'expected': 'serialised'}
    d = c08.compare(ET.parse(path).getroot(), ET.fromstring(rs.value))
    if d:
        return {'kind': 'valid-document-changed-by-reading', 'type': 'file', 'site': None, 'input': inp,
                'observed': d, 'expected': 'same infoset'}
    return None


MATCHER_ROOTS = ['part-list', 'part-list', 'harmony', 'sound', 'credit', 'metronome', 'lyric', 'key', 'ornaments',
                 'score-part', 'direction-type', 'score-partwise']

REAL_FILES_QUICK = ['musicxml/parser/test_hello_world.xml',
                    'musicxml/tests/test_xmlelement/test_hello_world_expected.xml',
                    'musicxml/tests/test_xmlelement/test_minimum_score_expected.xml']
REAL_FILES_THOROUGH = ['musicxml/parser/test_bach_partita_3_reduced_created.xml',
                       'musicxml/parser/test_bach_partita_3.xml']


def make_body(ctx, acc):
    s = schema()
    outside = sorted(n for n, t in s.element_type.items() if t not in c14.EXCLUDED_TYPES)

    def body(data):
        el = data.draw(st.sampled_from(c08.ROOTS)) if data.draw(st.integers(0, 2)) > 0 \
            else data.draw(st.sampled_from(outside))
        plan = draw_doc(data, el, data.draw(st.integers(1, 3)), set(), [40], False)
        if plan is None:
            return
        root = to_et(plan)
        label = mutate(data, root)
        if data.draw(st.integers(0, 3)) == 0:
            label += '+' + mutate(data, root)
        xml_text = ET.tostring(root, encoding='unicode')
        f, status = check_no_loss(xml_text, label)
        acc.case({'mode': 'mutated', 'xml': xml_text, 'mutation': label}, status.startswith('accepted'), len(xml_text))
        acc.count('mutant-' + status)
        acc.count('mutation-' + label.split('+')[0])
        if f:
            acc.fail(f)
    return body


def shards(ctx):
    jobs = [{'mode': 'valid', 'index': i} for i in range(8)]
    jobs += [{'mode': 'mutated', 'index': i} for i in range(7)]
    jobs.append({'mode': 'files'})
    if not ctx.quick:
        for i in range(4):
            jobs.append({'mode': 'atheris', 'index': i})
    return jobs


def run_shard(ctx, shard, acc):
    s = schema()
    names = sorted(s.element_type)
    outside = sorted(n for n, t in s.element_type.items() if t not in c14.EXCLUDED_TYPES)
    if shard['mode'] == 'atheris':
        from ..fuzz import run_atheris
        run_atheris(ctx, acc, 'C09', shard['index'], seconds=int(120 * ctx.scale) or 10)
        return
    if shard['mode'] == 'files':
        files = REAL_FILES_QUICK + ([] if ctx.quick else REAL_FILES_THOROUGH)
        root = os.path.dirname(driver.PKG_DIR.rstrip(os.sep))
        for rel in files:
            if not os.path.exists(os.path.join(root, rel)):
                acc.count('real-file-missing')
                continue
            acc.case({'mode': 'file', 'path': rel}, True, os.path.getsize(os.path.join(root, rel)))
            acc.count('real-file')
            f = check_file(rel)
            if f:
                acc.fail(f, raise_=False)
        return
    if shard['mode'] == 'valid':
        def body(data):
            inside = data.draw(st.integers(0, 4)) == 0
            pool = names if inside else outside
            if inside and data.draw(st.integers(0, 1)):
                # half of the inside-scope budget goes to the matcher types themselves: a regression there is only
                # visible as a failing word that is NOT among the exactly enumerated known ones
                el = data.draw(st.sampled_from(MATCHER_ROOTS))
            else:
                el = data.draw(st.sampled_from(c08.ROOTS)) if (not inside and data.draw(st.integers(0, 2)) > 0) \
                    else data.draw(st.sampled_from(pool))
            flags = set()
            plan = draw_doc(data, el, data.draw(st.integers(1, 4)), flags, [60 if ctx.quick else 200], inside)
            if plan is None:
                acc.count('excluded-by-known-finding-scope')
                return
            variant = data.draw(st.sampled_from(['utf8', 'utf8', 'utf16', 'nodecl']))
            acc.case({'mode': 'valid', 'plan': plan, 'variant': variant},
                     bool(flags & {'repeated', 'special-attribute'}), len(str(plan)))
            acc.count('inside-known-scopes' if inside else 'outside-known-scopes')
            acc.count('variant-' + variant)
            f = check_valid(plan, variant)
            if f:
                acc.fail(f)
        hyp_search(acc, body, mix(ctx.seed, 'C09v', shard['index']), ctx.budget(900, 6000))
        return

    body = make_body(ctx, acc)
    hyp_search(acc, body, mix(ctx.seed, 'C09m', shard['index']), ctx.budget(1500, 14000))
