"""C10 - a failed operation changes nothing (differential twin)."""
import itertools

from hypothesis import strategies as st

from .. import gen
from ..driver import call, stub
from ..history import Run, draw_op
from ..oracle.schema import schema
from ..run import hyp_search, mix
from .c01 import enum_histories, symbol_subset

RULE = ('histories in which ops fail for every listed reason (wrong / foreign child, maxOccurs, other choice branch, '
        'bad forward, remove / replace of a non-child - never attached, a child of a held child, or a child of another '
        'element, which must itself stay as it was -, invalid attribute name or value, invalid value, xml_* with bad '
        'value or unknown name, to_string on incomplete children / attributes): (a) ALL histories of <=3 ops over add '
        '/ remove / dot-None / to_string on a deterministic symbol subset of every type, (a2) for all a, b, c of the subset where c is refused after a, b: the refused add followed by the removal of a or b, with c probed again, (b) Hypothesis-drawn adaptive '
        'histories steered so that failures happen after duplication and after intelligent-choice attempts.  '
        'Differential twin: A runs the history, B runs it with the ops that raised on A replaced by no-ops; after '
        'EVERY step obs(A)==obs(B) (both child views by identity label, attributes, value); at the first failure point '
        'and at the end the to_string text or exception type + missing-children message (both intelligent_choice '
        'values at the end) obtained by REPLAYING each history on fresh objects must agree, and, for sampled '
        'alphabet symbols (all symbols in the thorough tier) the accept/reject verdict of add_child obtained by '
        'REPLAYING each history on fresh objects and appending the probe must agree.  Non-trivial = >=1 failing op '
        'followed by >=1 later op; distinct by (element, ops).')
ASSUMPTIONS = ['observation during the run uses getters only; every to_string verdict that is compared is obtained on a '
               'fresh replay of the respective history, so observing never feeds back into either twin']
EXHAUSTIVE = False

WEIGHTS = {'add': 10, 'add_fwd': 3, 'remove': 3, 'remove_nonchild': 2, 'replace': 2, 'replace_nonchild': 1,
           'dot_inst': 2, 'dot_val': 2, 'dot_none': 2, 'to_string': 3, 'set_attr': 2, 'set_attr_none': 1,
           'set_value': 1, 'add_nested': 2, 'remove_grandchild': 1, 'remove_elsewhere': 1,
           'share_out': 1, 'add_again': 1, 'replace_self': 1}


def run_observed(el, ops, skip=()):
    """structural observations (both child views, attributes, value) after every step; to_string is NOT called while
    observing - a failing to_string is itself one of the operations under test, and calling it on the twin would
    give the twin the same side effects"""
    run = Run(el)
    if run.e is None:
        return run, [], set()
    failed = set()
    trace = []
    for i, op in enumerate(ops):
        if i in skip:
            run.apply(['skip'])
        else:
            r = run.apply(op)
            if r is not None and not r.ok:
                failed.add(i)
        trace.append(run.obs(with_string=False))
    return run, trace, failed


def replay_then(el, ops, skip, upto, what):
    """replay ops[:upto] on a fresh object, then `what`: ('add', sym) -> verdict of add_child, ('string', ic) ->
    to_string verdict"""
    run, _, _ = run_observed(el, ops[:upto], skip)
    if run.e is None:
        return 'noparent'
    if what[0] == 'add':
        return call(run.e.add_child, stub(what[1])).verdict()
    return run.string_verdict(bool(what[1]))


def diff_fields(a, b):
    return [k for k in a if a[k] != b.get(k)]


def check(el, ops, probe_syms=None, all_points=False):
    s = schema()
    t = s.element_type[el]
    A, ta, failed = run_observed(el, ops)
    if A.e is None or not failed:
        return A, None, failed
    B, tb, _ = run_observed(el, ops, skip=failed)

    def F(kind, observed, at):
        first = min(failed)
        site = A.results[first][1]
        return {'kind': kind, 'type': t, 'site': site, 'input': {'element': el, 'ops': ops},
                'observed': observed, 'expected': 'identical to the twin that never made the failing call(s) %s'
                                                  % sorted(failed)}
    for i, (x, y) in enumerate(zip(ta, tb)):
        if x != y:
            fields = diff_fields(x, y)
            return A, F('state-differs-after-failed-op', {'step': i, 'fields': fields,
                                                           'A': {k: x[k] for k in fields},
                                                           'B': {k: y[k] for k in fields}}, i), failed
    points = sorted(failed)[:1] + [len(ops) - 1]
    if all_points:
        points = sorted(failed) + [len(ops) - 1]
    points = sorted(set(points))
    # serialisation / missing-children verdict after the failure point and at the end, each obtained on FRESH replays
    for pt in points:
        for ic in ((0, 1) if pt == len(ops) - 1 else (0,)):
            va = replay_then(el, ops, (), pt + 1, ('string', ic))
            vb = replay_then(el, ops, failed, pt + 1, ('string', ic))
            if va != vb:
                return A, F('state-differs-after-failed-op',
                            {'step': pt, 'fields': ['string'], 'intelligent_choice': ic, 'A': {'string': va},
                             'B': {'string': vb}}, pt), failed
    if probe_syms and A.dfa is not None:
        for pt in (points if all_points else points[-1:]):
            for sym in probe_syms:
                va = replay_then(el, ops, (), pt + 1, ('add', sym))
                vb = replay_then(el, ops, failed, pt + 1, ('add', sym))
                if va != vb:
                    return A, F('acceptance-differs-after-failed-op',
                                {'after_step': pt, 'symbol': sym, 'A': va, 'B': vb}, pt), failed
    return A, None, failed


def nontrivial(ops, failed):
    return bool(failed) and min(failed) < len(ops) - 1


def replay_case(rec):
    inp = rec['input']
    s = schema()
    t = s.element_type[inp['element']]
    syms = s.alphabet(t) if s.content_kind(t) == 'elements' else None
    return check(inp['element'], [list(o) for o in inp['ops']], syms, all_points=True)[1]


def shards(ctx):
    te = gen.types_and_elements()
    jobs = [{'mode': 'exh', 'types': part} for part in gen.chunk(te, 16)]
    for i in range(16):
        jobs.append({'mode': 'random', 'index': i})
    return jobs


def run_shard(ctx, shard, acc):
    s = schema()
    if shard['mode'] == 'exh':
        for t, els in shard['types']:
            syms = symbol_subset(t, 5)
            for ops in enum_histories(t, 3, 6 if ctx.quick else 12):
                A, f, failed = check(els[0], ops, syms if not ctx.quick else syms[:3])
                if A.e is None:
                    break
                acc.case({'element': els[0], 'ops': ops}, nontrivial(ops, failed), len(ops))
                if f:
                    acc.fail(f, raise_=False)
            # a refused addition, then a removal, then the refused child is offered again: whether it is taken now
            # must not depend on the refused attempt having been made (all a, b, c of the subset with c refused)
            from ..driver import fresh
            for a, b, c in itertools.product(symbol_subset(t, 12), repeat=3):
                r0 = call(fresh, els[0])
                if not r0.ok:
                    break
                if not (call(r0.value.add_child, stub(a)).ok and call(r0.value.add_child, stub(b)).ok) or \
                        call(r0.value.add_child, stub(c)).ok:
                    continue
                for i in (0, 1):
                    ops = [['add', a], ['add', b], ['add', c], ['remove', i]]
                    A, f, failed = check(els[0], ops, [c])
                    acc.case({'element': els[0], 'ops': ops}, nontrivial(ops, failed), 4)
                    acc.count('refused-then-removal')
                    if f:
                        acc.fail(f, raise_=False)
        return
    te = gen.types_and_elements(all_elements=not ctx.quick)
    maxops = 10 if ctx.quick else 24

    def body(data):
        t, els = data.draw(st.sampled_from(te))
        el = data.draw(st.sampled_from(els))
        run = Run(el)
        if run.e is None:
            return
        n = data.draw(st.integers(2, maxops))
        bias = {'prefix': 4, 'compatible': 5, 'incompatible': 5, 'foreign': 1}
        for _ in range(n):
            run.apply(draw_op(data, run, WEIGHTS, bias))
        ops = run.ops
        al = run.alphabet
        k = 4 if ctx.quick else len(al)
        syms = [data.draw(st.sampled_from(al)) for _ in range(min(k, len(al)))] if (al and ctx.quick) else al
        A, f, failed = check(el, ops, syms)
        acc.case({'element': el, 'ops': ops}, nontrivial(ops, failed), len(ops))
        for fl in sorted(A.flags):
            acc.count(fl)
        if failed:
            acc.count('histories-with-failure')
        if f:
            acc.fail(f)

    hyp_search(acc, body, mix(ctx.seed, 'C10', shard['index']), ctx.budget(350, 8000))
