"""C11 - removing a child restores the behaviour the element had without it (rebuilt twin)."""
from hypothesis import strategies as st

from .. import gen
from ..driver import call, stub
from ..history import Run, draw_op
from ..oracle.schema import parikh, schema
from ..run import hyp_search, mix
import itertools

from .c01 import enum_histories, enum_word_removals, symbol_subset

RULE = ('histories of add / remove / xml_x=None (removals at any position): (a) ALL histories of <=3 ops (quick; <=4 '
        'for alphabets <=4 in thorough) over a deterministic symbol subset of every type, (b) Hypothesis-drawn adaptive '
        'histories, (c) ALL histories "k adds then one removal" over the FULL alphabet of every type (k<=2 quick, '
        'k<=3 thorough), (d) every permutation with an inversion of every multiset (size<=3 quick, <=4 thorough) that '
        'has a unique arrangement, followed by one removal at every position; the histories of (c) are repeated with a read-only to_string() just before the removal.  Twin B = fresh element of the same class to which the surviving children\'s names are added in '
        'their surviving insertion order.  Compared: to_string text, or exception type and missing-children message; '
        'schema-ordered child names; and, for every alphabet symbol (sampled in quick), the accept/reject verdict of '
        'adding it, obtained by replaying on fresh objects.  Non-trivial = >=1 successful removal of a child that '
        'had committed a choice, forced an optional group or caused a duplication (approximated: removal while >=1 '
        'other child is held or of a symbol on a choice / optional / repeated particle); distinct by (element, ops).')
ASSUMPTIONS = ['only ops with a well-defined rebuilt twin are used (no forward adds, no replace)']
EXHAUSTIVE = False

WEIGHTS = {'add': 10, 'add_fwd': 0, 'remove': 5, 'remove_nonchild': 0, 'replace': 0, 'replace_nonchild': 0,
           'dot_inst': 0, 'dot_val': 0, 'dot_none': 3, 'to_string': 0}


def build(el, ops):
    run = Run(el)
    if run.e is None:
        return run
    for op in ops:
        run.apply(op)
    return run


def verdicts(run):
    r = call(run.e.get_children, True)
    names = [c.name for c in r.value] if r.ok else 'ERR:' + r.etype
    return {'ordered': names, 'string': run.string_verdict(False)}


def check(el, ops, probe_syms):
    s = schema()
    t = s.element_type[el]
    A = build(el, ops)
    if A.e is None or 'removed' not in A.flags:
        return A, None
    survivors = A.names()
    twin_ops = [['add', n] for n in survivors]
    B = build(el, twin_ops)

    def F(kind, observed):
        return {'kind': kind, 'type': t, 'site': None, 'input': {'element': el, 'ops': ops},
                'observed': observed, 'expected': 'as a fresh element holding %s' % survivors,
                'norm': {'type': t, 'ops': effective_ops(A)}}
    if any(v[0] != 'ok' for v in B.results):
        # the twin itself cannot be built in that order: no reference behaviour is defined by the property
        A.flags.add('twin-unbuildable')
        return A, None
    va, vb = verdicts(A), verdicts(B)
    # the rebuilt twin is a reference only where it is itself consistent with the schema (it is not, for some
    # multisets of the matcher types of the open C02/C12 findings): judged by the oracle, not by a type list
    if A.dfa is not None:
        cnt = parikh(survivors)
        if vb['string'][0] == 'ok':
            if not isinstance(vb['ordered'], list) or not A.dfa.accepts(tuple(vb['ordered'])):
                A.flags.add('twin-contradicts-oracle')
                return A, None
        elif vb['string'][0] == 'XMLElementChildrenRequired' and A.dfa.arrangements(cnt, limit=1) >= 1:
            A.flags.add('twin-contradicts-oracle')
            return A, None
    if va['string'][0] != vb['string'][0]:
        if va['string'][0] == 'XMLElementChildrenRequired' and vb['string'][0] == 'ok':
            return A, F('stale-required-after-remove', {'A': va['string'], 'B': 'ok'})
        return A, F('verdict-differs-after-remove', {'A': va['string'][:1], 'B': vb['string'][:1]})
    if va['string'] != vb['string']:
        if va['string'][0] == 'XMLElementChildrenRequired':
            # same exception, different missing-children verdict
            return A, F('stale-required-after-remove', {'A': va['string'][1][:200], 'B': vb['string'][1][:200]})
        return A, F('output-differs-after-remove', {'A': va['string'][1][:200], 'B': vb['string'][1][:200]})
    if va['ordered'] != vb['ordered']:
        return A, F('order-differs-after-remove', {'A': va['ordered'], 'B': vb['ordered']})
    # alternatives the removals freed, judged by the oracle: symbols that could not join the children held at some
    # earlier point but can join the survivors ("an exclusive alternative becomes available again") are always probed
    freed = []
    if A.dfa is not None:
        held = []
        for op, res in zip(A.ops, A.results):
            if res[0] != 'ok':
                continue
            if op[0] == 'add':
                held.append(op[1])
                for a in A.alphabet:
                    if a not in freed and not A.dfa.completable(parikh(held + [a])) \
                            and A.dfa.completable(parikh(survivors + [a])):
                        freed.append(a)
    for sym in freed + [x for x in probe_syms if x not in freed]:
        ra = call(build(el, ops).e.add_child, stub(sym))
        rb = call(build(el, twin_ops).e.add_child, stub(sym))
        if ra.verdict() != rb.verdict():
            return A, F('acceptance-differs-after-remove', {'symbol': sym, 'A': ra.verdict(), 'B': rb.verdict()})
    return A, None


def effective_ops(run):
    """the history reduced to what took effect: successful adds and removals (removal index = position among the
    children held at that moment); used to recognise a history independently of how it was spelt"""
    out, held = [], []
    for op, res in zip(run.ops, run.results):
        if res[0] != 'ok':
            continue
        if op[0] == 'add':
            out.append(['add', op[1]])
            held.append(op[1])
        elif op[0] == 'remove' and held:
            i = op[1] % len(held)
            out.append(['remove', i])
            held.pop(i)
        elif op[0] == 'dot_none' and op[1] in held:
            i = held.index(op[1])
            out.append(['remove', i])
            held.pop(i)
        elif op[0] in ('remove', 'dot_none', 'to_string'):
            pass
        else:
            out.append(list(op))
    return out


BOUND_ADDS = 3


def enum_add_remove(tkey, max_adds, firsts=None):
    """ALL histories 'k adds (k <= max_adds) then one removal' over the FULL alphabet of the type"""
    al = schema().alphabet(tkey)
    for k in range(1, max_adds + 1):
        for combo in itertools.product(al, repeat=k):
            if firsts is not None and combo[0] not in firsts:
                continue
            for i in range(k):
                yield [['add', a] for a in combo] + [['remove', i]]


def replay_case(rec):
    inp = rec['input']
    s = schema()
    t = s.element_type[inp['element']]
    return check(inp['element'], [list(o) for o in inp['ops']], s.alphabet(t))[1]


def nontrivial(run):
    return 'removed' in run.flags and 'removed-nontrivial' in run.flags


def mark(run_ops, results, tkey):
    """approximate the rule: a removal happened while another child was held"""
    held = 0
    for op, res in zip(run_ops, results):
        if res[0] != 'ok':
            continue
        if op[0] == 'add':
            held += 1
        elif op[0] in ('remove', 'dot_none'):
            if held >= 2:
                return True
            held = max(0, held - 1)
    return False


def shards(ctx):
    te = gen.types_and_elements()
    jobs = [{'mode': 'exh', 'types': part} for part in gen.chunk(te, 16)]
    for i in range(16):
        jobs.append({'mode': 'random', 'index': i})
    # complete 'adds then one removal' histories over the full alphabets; big alphabets are split by first symbol
    s = schema()
    small = []
    for t, els in te:
        al = s.alphabet(t)
        if len(al) ** (2 if ctx.quick else BOUND_ADDS) > 4000:
            for part in gen.chunk(al, 8):
                jobs.append({'mode': 'add-remove', 'types': [(t, els)], 'firsts': part})
        else:
            small.append((t, els))
    jobs += [{'mode': 'add-remove', 'types': part, 'firsts': None} for part in gen.chunk(small, 8)]
    jobs += [{'mode': 'perm-remove', 'types': part} for part in gen.chunk(te, 16)]
    return jobs


def run_shard(ctx, shard, acc):
    s = schema()
    if shard['mode'] == 'exh':
        for t, els in shard['types']:
            n = len(s.alphabet(t))
            depth = 4 if (not ctx.quick and n <= 4) else 3
            syms = symbol_subset(t, 5)
            for ops in itertools.chain(enum_histories(t, depth, 8 if ctx.quick else 12),
                                       enum_word_removals(t, 4, 100 if ctx.quick else 1000)):
                if any(o[0] in ('to_string', 'add_fwd') for o in ops):
                    continue     # forward adds have no rebuilt twin; serialisations are not part of this property
                if ops[-1][0] == 'add' and not any(o[0] in ('remove', 'dot_none') for o in ops):
                    continue
                A, f = check(els[0], ops, syms if not ctx.quick else syms[:3])
                if A.e is None:
                    break
                if mark(A.ops, A.results, t):
                    A.flags.add('removed-nontrivial')
                acc.case({'element': els[0], 'ops': ops}, nontrivial(A), len(ops))
                if f:
                    acc.fail(f, raise_=False)
        return
    if shard['mode'] == 'perm-remove':
        # children supplied OUT of schema order (so that the matcher re-arranges, possibly through its intelligent
        # path), then one removal: every permutation of every multiset with a unique arrangement
        from . import c12
        for t, els in shard['types']:
            for ms, target in c12.unique_multisets(t, 3 if ctx.quick else 4, cap_words=2000 if ctx.quick else 20000):
                for p in c12.distinct_perms(ms, cap=6 if ctx.quick else 24):
                    if c12.inversions(p, target) < 1:
                        continue
                    for i in range(len(p)):
                        ops = [['add', a] for a in p] + [['remove', i]]
                        A, f = check(els[0], ops, [])
                        if A.e is None:
                            break
                        if mark(A.ops, A.results, t):
                            A.flags.add('removed-nontrivial')
                        acc.case({'element': els[0], 'ops': ops}, nontrivial(A), len(ops))
                        acc.count('perm-remove-histories')
                        if f:
                            acc.fail(f, raise_=False)
        return
    if shard['mode'] == 'add-remove':
        for t, els in shard['types']:
            for ops in enum_add_remove(t, 2 if ctx.quick else BOUND_ADDS, shard.get('firsts')):
                A, f = check(els[0], ops, [])
                if A.e is None:
                    break
                if any(v[0] != 'ok' for v in A.results[:-1]):
                    continue        # an add was refused: the same effective history is enumerated with fewer adds
                if mark(A.ops, A.results, t):
                    A.flags.add('removed-nontrivial')
                acc.case({'element': els[0], 'ops': ops}, nontrivial(A), len(ops))
                acc.count('add-remove-histories')
                if f:
                    acc.fail(f, raise_=False)
                    continue
                # the same history with a (read-only) serialisation just before the removal: what the removal
                # restores must not depend on the element having been looked at
                ops2 = ops[:-1] + [['to_string', 0], ops[-1]]
                A2, f2 = check(els[0], ops2, [])
                acc.case({'element': els[0], 'ops': ops2}, nontrivial(A), len(ops2))
                if f2:
                    acc.fail(f2, raise_=False)
        return
    te = gen.types_and_elements(all_elements=not ctx.quick)
    maxops = 10 if ctx.quick else 24

    def body(data):
        t, els = data.draw(st.sampled_from(te))
        el = data.draw(st.sampled_from(els))
        run = Run(el)
        if run.e is None:
            return
        for _ in range(data.draw(st.integers(2, maxops))):
            run.apply(draw_op(data, run, WEIGHTS, {'prefix': 6, 'compatible': 5, 'incompatible': 1, 'foreign': 0}))
        ops = run.ops
        al = run.alphabet
        syms = [data.draw(st.sampled_from(al)) for _ in range(min(4, len(al)))] if ctx.quick else al
        A, f = check(el, ops, syms)
        if mark(A.ops, A.results, t):
            A.flags.add('removed-nontrivial')
        acc.case({'element': el, 'ops': ops}, nontrivial(A), len(ops))
        for fl in sorted(A.flags):
            acc.count(fl)
        if f:
            acc.fail(f)

    hyp_search(acc, body, mix(ctx.seed, 'C11', shard['index']), ctx.budget(500, 10000))
