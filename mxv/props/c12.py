"""C12 - where the schema fixes the order, insertion order does not matter; a still-compatible child is never
rejected."""
import itertools
import xml.etree.ElementTree as ET

from hypothesis import strategies as st

from .. import driver, gen
from ..driver import call, fresh, stub
from ..history import Run, draw_symbol
from ..oracle.schema import parikh, schema
from ..run import hyp_search, mix
from .c01 import symbol_subset

RULE = ('(a) for every type, every multiset of child names of size <=K (quick 3, thorough 4; complete combination '
        'enumeration for alphabets <=12 symbols, Parikh images of enumerated words otherwise) that has EXACTLY ONE '
        'accepted arrangement (decided by an exact DP on the DFA), fed in every distinct permutation: all adds must '
        'succeed, get_children(ordered) must equal the unique arrangement with same-named children in insertion '
        'order, to_string must return that order; plus Hypothesis-drawn larger unique multisets with sampled '
        'permutations.  (b) add-only histories in arbitrary order (plus, for every symbol, add twice / remove both / add again): a symbol that is rejected must have been '
        'uncompletable together with the held children (oracle: completable(held+symbol) false).  Non-trivial: (a) '
        'the permutation has >=1 inversion across different names, (b) a rejection of an alphabet symbol occurred; '
        'distinct by (element, sequence).')
ASSUMPTIONS = ['uniqueness of the arrangement is decided by exact DP on the DFA, never by capped enumeration']
EXHAUSTIVE = False
FULL_ALPHABET_TYPES = ('credit', 'harmony')


def check_perm(tkey, el, perm, target):
    inp = {'element': el, 'perm': list(perm)}

    def F(kind, observed, site=None):
        return {'kind': kind, 'type': tkey, 'site': site, 'input': inp, 'observed': observed,
                'expected': {'arrangement': list(target)}}

    r = call(fresh, el)
    if not r.ok:
        return F('parent-construction-failed', '%s: %s' % (r.etype, r.msg), r.site)
    e = r.value
    kids = []
    for i, a in enumerate(perm):
        c = stub(a)
        r = call(e.add_child, c)
        if not r.ok:
            return F('permutation-rejected', '%s at index %d (%s)' % (r.etype, i, a), r.site)
        kids.append(c)
    r = call(e.get_children, True)
    if not r.ok:
        return F('get-children-failed', r.etype, r.site)
    got = [c.name for c in r.value]
    if got != list(target):
        return F('not-in-unique-arrangement', got)
    # same-named children keep insertion order
    for name in set(perm):
        mine = [c for c in kids if c.name == name]
        theirs = [c for c in r.value if c.name == name]
        if len(mine) != len(theirs) or any(x is not y for x, y in zip(mine, theirs)):
            return F('same-named-children-reordered', name)
    r = call(e.to_string)
    if not r.ok:
        return F('permutation-fails-final-check', '%s: %s' % (r.etype, r.msg[:120]), r.site)
    tags = [c.tag for c in ET.fromstring(r.value)]
    if tags != list(target):
        return F('serialised-order-differs', tags)
    return None


def inversions(perm, target):
    # count pairs of different names out of target order (first occurrences suffice for non-triviality)
    pos = {}
    for i, a in enumerate(target):
        pos.setdefault(a, i)
    return sum(1 for i in range(len(perm)) for j in range(i + 1, len(perm))
               if perm[i] != perm[j] and pos[perm[i]] > pos[perm[j]])


def unique_multisets(tkey, K, cap_words=20000):
    s = schema()
    dfa = s.dfa(tkey)
    al = s.alphabet(tkey)
    seen = set()
    out = []
    if len(al) <= 12:
        cands = (c for k in range(1, K + 1) for c in itertools.combinations_with_replacement(al, k))
    else:
        cands = (tuple(sorted(w)) for w in dfa.enumerate(K, cap=cap_words) if w)
    for c in cands:
        key = tuple(sorted(c))
        if key in seen:
            continue
        seen.add(key)
        cnt = parikh(key)
        if dfa.arrangements(cnt, limit=2) == 1:
            out.append((key, dfa.one_arrangement(cnt)))
    return out


def distinct_perms(ms, cap=24):
    seen = []
    for p in itertools.permutations(ms):
        if p not in seen:
            seen.append(p)
            if len(seen) >= cap:
                break
    return seen


# -- part (b) ------------------------------------------------------------------------------------

def Fb(run, sym, r):
    return {'kind': 'compatible-child-rejected', 'type': run.tkey, 'site': r.site,
            'input': {'element': run.el, 'ops': run.ops}, 'observed': '%s for %s with held %s' % (
                r.etype, sym, run.names()[:-0] if False else run.names()),
            'expected': 'accepted: the children can still be arranged into (part of) a valid sequence',
            # what took effect: the children accepted so far (in the order they were accepted) and the refused one
            'norm': {'type': run.tkey, 'held': run.names(), 'rejected': sym}}


def step_b(run, a):
    held = parikh(run.names())
    h2 = dict(held)
    h2[a] = h2.get(a, 0) + 1
    ok = run.dfa.completable(h2) if a in run.alphabet else False
    r = run.apply(['add', a])
    if r is not None and not r.ok:
        if a in run.alphabet:
            run.flags.add('rejection')
        if ok:
            return Fb(run, a, r)
    return None


def execute_b(el, ops):
    run = Run(el)
    if run.e is None:
        return run, None
    for op in ops:
        if op[0] == 'remove':
            run.apply(op)          # (part of the history only; what a removal must restore is C11's subject)
            continue
        f = step_b(run, op[1])
        if f:
            return run, f
    return run, None


def replay_case(rec):
    inp = rec['input']
    s = schema()
    if 'perm' in inp:
        t = s.element_type[inp['element']]
        target = s.dfa(t).one_arrangement(parikh(inp['perm']))
        return check_perm(t, inp['element'], tuple(inp['perm']), target)
    return execute_b(inp['element'], [list(o) for o in inp['ops']])[1]


def shards(ctx):
    te = gen.types_and_elements()
    jobs = [{'mode': 'perm', 'type': t, 'elements': els} for t, els in te]
    jobs += [{'mode': 'b-exh', 'types': part} for part in gen.chunk(te, 8)]
    for i in range(12):
        jobs.append({'mode': 'b-random', 'index': i})
    for i in range(8):
        jobs.append({'mode': 'perm-random', 'index': i})
    return jobs


def run_shard(ctx, shard, acc):
    s = schema()
    if shard['mode'] == 'perm':
        t = shard['type']
        K = 3 if ctx.quick else 4
        ums = unique_multisets(t, K, cap_words=4000 if ctx.quick else 40000)
        acc.extras['unique_multisets'] = len(ums)
        for el in shard['elements']:
            for ms, target in ums:
                for p in distinct_perms(ms):
                    acc.case({'element': el, 'perm': list(p)}, inversions(p, target) >= 1, len(p))
                    f = check_perm(t, el, p, target)
                    if f:
                        acc.fail(f, raise_=False)
        return
    if shard['mode'] == 'b-exh':
        for t, els in shard['types']:
            # the types of the open finding KF-M-compatible-child-rejected are explored over their FULL alphabet:
            # inside that bound the finding is an exact list of (held children, refused child)
            syms = s.alphabet(t) if t in FULL_ALPHABET_TYPES else symbol_subset(t, 6 if ctx.quick else 8)
            # an element that was filled and emptied again takes every child an empty element takes
            if t not in FULL_ALPHABET_TYPES:
                for a in syms:
                    run, f = execute_b(els[0], [['add', a], ['add', a], ['remove', 0], ['remove', 0], ['add', a]])
                    if run.e is None:
                        break
                    acc.case({'element': run.el, 'ops': run.ops}, 'rejection' in run.flags, 5)
                    acc.count('refill-after-emptying')
                    if f:
                        acc.fail(f, raise_=False)
            for n in (2, 3) if t not in FULL_ALPHABET_TYPES else (2, 3, 4):
                for combo in itertools.product(syms, repeat=n):
                    run, f = execute_b(els[0], [['add', a] for a in combo])
                    if run.e is None:
                        break
                    acc.case({'element': run.el, 'ops': run.ops}, 'rejection' in run.flags, n)
                    if f:
                        acc.fail(f, raise_=False)
        return
    te = gen.types_and_elements(all_elements=not ctx.quick)
    if shard['mode'] == 'b-random':
        maxops = 14 if ctx.quick else 30

        def body(data):
            t, els = data.draw(st.sampled_from(te))
            el = data.draw(st.sampled_from(els))
            run = Run(el)
            if run.e is None:
                return
            for _ in range(data.draw(st.integers(2, maxops))):
                a, c = draw_symbol(data, run, {'prefix': 3, 'compatible': 6, 'incompatible': 3, 'foreign': 1})
                f = step_b(run, a)
                if f:
                    acc.case({'element': run.el, 'ops': run.ops}, True, len(run.ops))
                    acc.fail(f)
            acc.case({'element': run.el, 'ops': run.ops}, 'rejection' in run.flags, len(run.ops))

        hyp_search(acc, body, mix(ctx.seed, 'C12b', shard['index']), ctx.budget(700, 6000))
        return

    # perm-random: larger unique multisets from random accepted words
    def body(data):
        t, els = data.draw(st.sampled_from(te))
        el = data.draw(st.sampled_from(els))
        dfa = s.dfa(t)
        w = gen.draw_word(data, dfa, max_len=data.draw(st.sampled_from([4, 6, 9])), stop_bias=2)
        cnt = parikh(w)
        if not w or dfa.arrangements(cnt, limit=2) != 1:
            acc.count('not-unique')
            return
        p = tuple(data.draw(st.permutations(list(w))))
        acc.count('unique')
        acc.case({'element': el, 'perm': list(p)}, inversions(p, w) >= 1, len(p))
        f = check_perm(t, el, p, w)
        if f:
            acc.fail(f)

    hyp_search(acc, body, mix(ctx.seed, 'C12p', shard['index']), ctx.budget(600, 6000))
