"""C13 - element instances are isolated from one another."""
import json
import os
import subprocess
import sys

from hypothesis import strategies as st

from .. import gen
from .. import driver
from ..driver import call, fresh, stub
from ..history import Run, draw_op, replay
from ..oracle.schema import schema
from ..run import hyp_search, mix, h

RULE = ('for every class with element content: a deep copy of a nested element does not change when the original\'s parent is moved below another element; '
        'for every (class, attribute) pair: an equal-but-wrongly-typed value (1.0 / True for 1) gets the same verdict from a fresh element before and after another element was given the valid spelling; '
        'k in {2,3} instances (same class / same type, other class / other type; deep copies forked from a live '
        'instance), each with its own Hypothesis-drawn adaptive history incl. failing ops and serialisations, executed '
        'under a drawn interleaving (the harness owns the schedule; single thread).  Oracle: every instance\'s sequence '
        'of observations (both child views by identity label, attributes, value, to_string text / exception + '
        'message) equals the sequence obtained when its history is replayed alone on a fresh object.  Process panel: '
        'after each shard\'s campaign a behaviour fingerprint of a FRESH instance of every element-content type (all '
        'add sequences of length <=2 over <=6 symbols: per-step verdicts + to_string text/verdict) must equal the '
        'fingerprint computed in a brand-new interpreter process.  Non-trivial = two instances of the same class with '
        'ops interleaved (A, B, A) and >=1 duplication, failure or serialisation; distinct by the full schedule.')
ASSUMPTIONS = ['single-threaded interleaving; thread schedules belong to C20']
EXHAUSTIVE = False

WEIGHTS = {'add': 10, 'add_fwd': 2, 'remove': 3, 'remove_nonchild': 1, 'replace': 2, 'replace_nonchild': 0,
           'dot_inst': 2, 'dot_val': 2, 'dot_none': 2, 'to_string': 4, 'set_attr': 2, 'set_attr_none': 1,
           'set_value': 1}


# deep copies share nothing: after a fork the histories lean on attribute / value edits and removals on either side
FORK_WEIGHTS = dict(WEIGHTS, set_attr=6, set_attr_none=5, set_value=2, remove=4, add=6)


def solo_trace(spec):
    """spec = {'element': el, 'ops': [...]} (ops may contain 'deepcopy' / 'copy_discard')"""
    run = Run(spec['element'], spec.get('checked', True))
    tr = []
    if run.e is None:
        return tr
    for op in spec['ops']:
        run.apply(op)
        tr.append(run.obs())
    return tr


def interleaved_trace(specs, schedule):
    """specs: list of {'element', 'ops', 'fork_of': j or None, 'fork_at': n}; schedule: list of instance indices.
    A forked instance's ops start with the parent's first fork_at ops followed by 'deepcopy'."""
    runs = [None] * len(specs)
    pos = [0] * len(specs)
    traces = [[] for _ in specs]
    for j, sp in enumerate(specs):
        if sp.get('fork_of') is None:
            runs[j] = Run(sp['element'], sp.get('checked', True))
    for j in schedule:
        sp = specs[j]
        if runs[j] is None:
            # fork now from the live parent; the parent must be exactly at fork_at (ensured by construction)
            parent = runs[sp['fork_of']]
            if parent is None or parent.e is None:
                continue
            runs[j] = parent.fork(drop_last=True)
            pos[j] = len(runs[j].ops)
            traces[j] = list(traces[sp['fork_of']][:sp['fork_at']]) + [runs[j].obs()]
            continue
        run = runs[j]
        if run.e is None or pos[j] >= len(sp['ops']):
            continue
        run.apply(sp['ops'][pos[j]])
        pos[j] += 1
        traces[j].append(run.obs())
    return traces, runs


def check_case(case):
    specs, schedule = case['specs'], case['schedule']
    traces, runs = interleaved_trace(specs, schedule)
    for j, sp in enumerate(specs):
        n = len(traces[j])
        solo = solo_trace({'element': sp['element'], 'ops': sp['ops'][:n], 'checked': sp.get('checked', True)})
        if solo != traces[j]:
            k = next((i for i, (a, b) in enumerate(zip(solo, traces[j])) if a != b), min(len(solo), n))
            fields = [f for f in (solo[k] if k < len(solo) else {}) if k < n and solo[k][f] != traces[j][k].get(f)]
            return {'kind': 'instance-affected-by-other-instance', 'type': schema().element_type[sp['element']],
                    'site': None, 'input': case,
                    'observed': {'instance': j, 'step': k, 'fields': fields},
                    'expected': 'same observations as when the history runs alone'}
    return None


def stateless_validation(el, q):
    """what one instance was given never changes what another instance accepts: an attribute value of the 'wrong'
    Python type that compares equal to a valid one (1.0 / True for 1) gets the same verdict from a fresh element
    before and after another element was given the valid spelling"""
    from ..oracle import lexical
    from ..driver import fresh, py_name
    s = schema()
    t = s.element_type[el]
    a = [x for x in s.attributes_of(t) if x['qname'] == q][0]
    dot = py_name(q.split(':')[-1])
    for txt in lexical.valid_texts(a['type'])[:6]:
        ok, pv = lexical.python_value_for(a['type'], txt)
        if not ok or isinstance(pv, bool) or not isinstance(pv, (int, float)):
            continue
        alts = [float(pv)] if isinstance(pv, int) else ([int(pv)] if pv == int(pv) else [])
        alts += [True] if pv == 1 else ([False] if pv == 0 else [])
        for alt in alts:
            r0 = call(fresh, el)
            if not r0.ok:
                return None
            before = call(setattr, r0.value, dot, alt).verdict()[0]
            call(setattr, call(fresh, el).value, dot, pv)
            after = call(setattr, call(fresh, el).value, dot, alt).verdict()[0]
            if before != after:
                return {'kind': 'instance-affected-by-other-instance', 'type': t, 'site': None,
                        'input': {'stateless': True, 'element': el, 'attribute': q},
                        'observed': {'value': repr(alt), 'fresh element before': before,
                                     'fresh element after another one was given %r' % (pv,): after},
                        'expected': 'the same verdict'}
    return None


def detached_copy(el):
    """a deep copy of a NESTED element is an instance of its own: what happens to the original's ancestors afterwards
    (here: the original's parent is put below a grand-parent) does not change what the copy returns"""
    import copy as _copy
    from ..driver import fresh
    from ..history import nested_child
    s = schema()
    t = s.element_type[el]
    rk = call(nested_child, el)
    rp, rg = call(fresh, 'measure', False), call(fresh, 'part', False)
    if not (rk.ok and rp.ok and rg.ok) or not call(rp.value.add_child, rk.value).ok:
        return None
    rc = call(_copy.deepcopy, rk.value)
    if not rc.ok:
        return None
    def out(x):
        r = call(x.to_string)
        return ['ok', r.value] if r.ok else [r.etype, r.msg[:200]]
    before = out(rc.value)
    call(rg.value.add_child, rp.value)
    after = out(rc.value)
    if before != after:
        return {'kind': 'instance-affected-by-other-instance', 'type': t, 'site': None,
                'input': {'detached_copy': True, 'element': el},
                'observed': {'copy before': before[1][:200] if len(before) > 1 else before,
                             'copy after the original parent was added to a part': after[1][:200] if len(after) > 1 else after},
                'expected': 'unchanged'}
    return None


def replay_case(rec):
    inp = rec['input']
    if inp.get('detached_copy'):
        return detached_copy(inp['element'])
    if inp.get('stateless'):
        return stateless_validation(inp['element'], inp['attribute'])
    if inp.get('panel'):
        # replay on the full panel: the dependence may come from any other class
        s = schema()
        return check_panel(sorted(dict(gen.types_and_elements())), sorted(s.element_type))
    return check_case(inp)


# -- panel ---------------------------------------------------------------------------------------

def fingerprint(tkey, el):
    s = schema()
    syms = s.alphabet(tkey)[:6]
    out = []
    seqs = [()] + [(a,) for a in syms] + [(a, b) for a in syms for b in syms]
    for seq in seqs:
        r = call(fresh, el)
        if not r.ok:
            out.append(['ctor', r.etype])
            continue
        e = r.value
        v = []
        for a in seq:
            v.append(call(e.add_child, stub(a)).verdict())
        rs = call(e.to_string)
        v.append(rs.value if rs.ok else [rs.etype, rs.msg[:200]])
        out.append(v)
    return h(out)


def value_fingerprint(el):
    """attribute-table names and value acceptance of one element class (fresh instances only)"""
    from ..oracle import lexical
    s = schema()
    t = s.element_type[el]
    cls = driver.cls_for(el)
    out = []
    r = call(lambda: sorted((a.name, bool(a.is_required)) for a in cls.TYPE.get_xsd_attributes())) \
        if t in s.complex else None
    out.append(r.value if (r is not None and r.ok) else (r.etype if r is not None else None))
    tt = s.text_type(t)
    if tt is not None:
        # acceptance of every literal of the type, of its ancestors' / relatives' literals, and of near misses
        cands = list(lexical.valid_texts(tt, limit=0)) + list(lexical.invalid_texts(tt))
        ti = lexical.info(tt)
        if ti.union is None and ti.base and ti.base in s.simple:
            cands += lexical.valid_texts(ti.base, limit=0)
        for txt in cands:
            ok, pv = lexical.python_value_for(tt, txt) if lexical.valid(tt, txt) else (True, txt)
            out.append([txt, call(cls, pv if ok else txt, xsd_check=False).verdict()])
    return h(out)


def panel(types, elements=(), reverse=False):
    te = dict(gen.types_and_elements())
    order = sorted(types, reverse=reverse)
    out = {t: fingerprint(t, te[t][0]) for t in order}
    for el in sorted(elements, reverse=reverse):
        out['@' + el] = value_fingerprint(el)
    return out


def pristine_panel(types, elements=()):
    # fresh interpreter that has only imported the library; EACH fingerprint is computed in its own forked child, so
    # nothing at all was built before it in that process
    code = ('import sys, json, warnings; warnings.filterwarnings("ignore"); '
            'from mxv.props.c13 import panel; from mxv.sched import in_child; a = json.loads(sys.argv[1]); out = {}\n'
            'for t in a[0]: out.update(in_child(lambda t=t: panel([t], [])))\n'
            'for e in a[1]: out.update(in_child(lambda e=e: panel([], [e])))\n'
            'print(json.dumps(out))')
    env = dict(os.environ)
    out = subprocess.run([sys.executable, '-B', '-W', 'ignore', '-c', code, json.dumps([types, list(elements)])],
                         env=env,
                         capture_output=True, text=True, timeout=600)
    if out.returncode != 0:
        raise RuntimeError('pristine panel subprocess failed: ' + out.stderr[-500:])
    return json.loads(out.stdout.strip().splitlines()[-1])


def check_panel(types, elements=()):
    # this process: after its campaign, and in REVERSE order; reference: a brand-new interpreter, forward order.
    # Any dependence of a fresh instance's behaviour on what was built before it shows as a difference.
    here = panel(types, elements, reverse=True)
    clean = pristine_panel(types, elements)
    bad = sorted(t for t in clean if here.get(t) != clean[t])
    if bad:
        return {'kind': 'fresh-instance-behaviour-changed', 'type': bad[0].lstrip('@'), 'site': None,
                'input': {'panel': True, 'types': [b for b in bad if not b.startswith('@')],
                          'elements': [b[1:] for b in bad if b.startswith('@')]},
                'observed': 'fingerprint differs from a pristine process',
                'expected': 'a fresh instance behaves as in a brand-new process'}
    return None


# -- generation ----------------------------------------------------------------------------------

def shards(ctx):
    return [{'index': i, 'n': 16} for i in range(16)]


def run_shard(ctx, shard, acc):
    s = schema()
    te = gen.types_and_elements(all_elements=True)
    by_type = dict(te)
    maxops = 8 if ctx.quick else 16

    def body(data):
        k = data.draw(st.sampled_from([2, 2, 3]))
        rel = data.draw(st.sampled_from(['same-class', 'same-class', 'same-type', 'other-type', 'fork']))
        t0, els0 = data.draw(st.sampled_from(te))
        el0 = data.draw(st.sampled_from(els0))
        specs = [{'element': el0, 'ops': [], 'fork_of': None}]
        for j in range(1, k):
            if rel == 'same-class' or (rel == 'fork'):
                specs.append({'element': el0, 'ops': [], 'fork_of': None})
            elif rel == 'same-type':
                specs.append({'element': data.draw(st.sampled_from(els0)), 'ops': [], 'fork_of': None})
            else:
                t1, els1 = data.draw(st.sampled_from(te))
                specs.append({'element': data.draw(st.sampled_from(els1)), 'ops': [], 'fork_of': None})
        # some instances are born unchecked and switched to checked later (xsd_check is a settable property)
        for sp in specs:
            if data.draw(st.integers(0, 4)) == 0:
                sp['checked'] = False
        runs = [Run(sp['element'], sp.get('checked', True)) for sp in specs]
        if any(r.e is None for r in runs):
            return
        schedule = []
        forked = False
        n = data.draw(st.integers(3, maxops * k))
        for _ in range(n):
            j = data.draw(st.integers(0, len(specs) - 1))
            if rel == 'fork' and not forked and len(specs[0]['ops']) >= 2 and data.draw(st.integers(0, 2)) == 0:
                # fork instance 0 now: a new instance continues on a deep copy of the live object
                specs[0]['ops'].append(['copy_discard'])
                runs[0].apply(['copy_discard'])
                schedule.append(0)
                at = len(specs[0]['ops']) - 1
                sp = {'element': el0, 'ops': [list(o) for o in specs[0]['ops'][:at]] + [['deepcopy']],
                      'fork_of': 0, 'fork_at': at, 'checked': specs[0].get('checked', True)}
                # the generator's own model of the fork: replay on a scratch object
                specs.append(sp)
                runs.append(replay(el0, sp['ops'], sp.get('checked', True)))
                schedule.append(len(specs) - 1)
                forked = True
                continue
            if specs[j].get('checked') is False and data.draw(st.integers(0, 3)) == 0:
                op = ['set_check', data.draw(st.integers(0, 1))]
            else:
                op = draw_op(data, runs[j], FORK_WEIGHTS if rel == 'fork' else WEIGHTS)
            runs[j].apply(op)
            specs[j]['ops'].append(op)
            schedule.append(j)
        case = {'specs': specs, 'schedule': schedule}
        same = [j for j, sp in enumerate(specs) if sp['element'] == el0]
        aba = False
        last = {}
        for i, j in enumerate(schedule):
            for j2 in same:
                if j2 != j and j in last and last.get(j2, -1) > last[j]:
                    aba = True
            last[j] = i
        flags = set().union(*[r.flags for r in runs])
        nt = aba and len(same) >= 2 and bool(flags & {'failed', 'serialised', 'copied'}
                                             or any(len(set(r.names())) < len(r.names()) for r in runs))
        acc.case(case, nt, len(schedule))
        acc.count(rel)
        f = check_case(case)
        if f:
            acc.fail(f)

    hyp_search(acc, body, mix(ctx.seed, 'C13', shard['index']), ctx.budget(500, 10000))
    # process panel for this shard's share of types, after the campaign above ran in this process
    # every shard fingerprints the FULL panel (structure of all 94 types, attribute tables and value acceptance of
    # all 441 classes); shards differ in the campaign that ran before it
    types = sorted(by_type)
    elements = sorted(s.element_type)
    # every (class, numeric attribute) pair, dealt to the shards: validation is stateless across instances
    pairs = [(el, a['qname']) for el in elements for a in s.attributes_of(s.element_type[el])
             if not a['qname'].startswith('xlink:') and a['qname'] not in ('xml:space', 'name')]
    for el, q in pairs[shard['index']::shard['n']]:
        f = stateless_validation(el, q)
        acc.case({'stateless': True, 'element': el, 'attribute': q}, True, 1)
        acc.count('stateless-attribute-pairs')
        if f:
            acc.fail(f, raise_=False)
    for el in [x for x in elements if s.content_kind(s.element_type[x]) == 'elements'][shard['index']::shard['n']]:
        f = detached_copy(el)
        acc.case({'detached_copy': True, 'element': el}, True, 1)
        acc.count('detached-copies')
        if f:
            acc.fail(f, raise_=False)
    f = check_panel(types, elements) if shard['index'] % 4 == 0 else None
    acc.case({'panel': True, 'after_shard': shard['index']}, True, len(types) + len(elements))
    acc.count('panel-types', len(types))
    acc.count('panel-classes', len(elements))
    if f:
        acc.fail(f, raise_=False)
