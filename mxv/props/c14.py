"""C14 - deep copies are faithful and independent."""
import copy

from hypothesis import strategies as st

from .. import driver, gen
from ..driver import call, cls_for, py_name
from ..oracle import lexical
from ..oracle.schema import schema
from ..run import hyp_search, mix

RULE = ('element trees (depth<=3) built through the API from oracle-valid child words: attributes supplied by '
        'constructor keyword, by later dot assignment, overwritten and removed (=None) after construction; values '
        'changed after construction; mixed xsd_check per node, unchecked nodes (of any type, also types without a content model) holding arbitrary extra children, and trees one of whose child objects has also been added to a second parent; also trees obtained from parse_musicxml.  Oracle: '
        'deepcopy(e).to_string()==e.to_string() (or both raise the same type with the same message); a recursive '
        'public-API dump (class, attributes, value, xsd_check, ordered children) of e is identical before and after '
        'copying and equals the copy\'s; then a drawn mutation (attribute set / removed, value set, child added / '
        'removed, nested attribute set) is applied to the copy and the original\'s dump and text must not change, '
        'and vice versa; a second copy taken after those mutations equals the mutated original and leaves the first copy alone.  The same for a deep copy of a NESTED element (child or grand-child, drawn): the copy '
        'must equal (dump and text) a detached rebuild of the same sub-plan, and must not change when the '
        'original\'s ancestor is removed from the root or the original subtree is mutated.  Non-trivial = >=1 attribute whose final state differs from the constructor keywords and '
        '>=1 nested child; distinct by plan.')
ASSUMPTIONS = ['types inside the open C02 findings (matcher cannot re-add a valid word) and attributes inside the open '
               'attribute findings (xlink, xml:space, anyURI, name=) are excluded by construction and counted']
EXHAUSTIVE = False

EXCLUDED_TYPES = {'credit', 'direction-type', 'harmony', 'key', 'lyric', 'metronome', 'ornaments', 'part-list',
                  'score-part', 'sound', 'part-link'}
BROKEN_ATTR = {'xml:space', 'name'}
JUNK_KIDS = ['staff', 'dot', 'words', 'pitch', 'chord', 'duration']


def usable_attrs(tkey):
    s = schema()
    return [a for a in s.attributes_of(tkey)
            if not a['qname'].startswith('xlink:') and a['qname'] not in BROKEN_ATTR and a['type'] != 'xs:anyURI']


def draw_attr_value(data, a):
    txt = data.draw(st.sampled_from(lexical.valid_texts(a['type'])))
    ok, pv = lexical.python_value_for(a['type'], txt)
    return pv if ok else txt


def draw_plan(data, el, depth):
    s = schema()
    t = s.element_type[el]
    plan = {'element': el, 'checked': data.draw(st.integers(0, 5)) > 0, 'ctor': {}, 'post': [], 'value': None,
            'kids': []}
    attrs = usable_attrs(t)
    req = [a for a in attrs if a['required']]
    for a in req:
        plan['ctor'][a['qname']] = draw_attr_value(data, a)
    if attrs:
        for _ in range(data.draw(st.integers(0, 4))):
            a = data.draw(st.sampled_from(attrs))
            how = data.draw(st.sampled_from(['ctor', 'post', 'post', 'post', 'post-none']))
            if how == 'ctor':
                plan['ctor'][a['qname']] = draw_attr_value(data, a)
            elif how == 'post':
                plan['post'].append([a['qname'], draw_attr_value(data, a)])
            elif not a['required']:
                plan['post'].append([a['qname'], None])
    tt = s.text_type(t)
    if tt is not None:
        v1 = driver.stub_value(el)
        plan['value'] = [v1]
        if data.draw(st.integers(0, 1)):
            txt = data.draw(st.sampled_from(lexical.valid_texts(tt)))
            ok, pv = lexical.python_value_for(tt, txt)
            if ok:
                plan['value'].append(pv)
    if s.content_kind(t) == 'elements':
        dfa = s.dfa(t)
        word = gen.draw_word(data, dfa, max_len=data.draw(st.sampled_from([3, 6])), stop_bias=3)
        for i, a in enumerate(word):
            ct = s.element_type[a]
            if ct in EXCLUDED_TYPES:
                plan['kids'].append({'element': a, 'stub': True, 'v': i})
            elif depth > 1 and data.draw(st.integers(0, 2)) > 0:
                plan['kids'].append(draw_plan(data, a, depth - 1))
            else:
                plan['kids'].append({'element': a, 'stub': True, 'v': i})
        n = len(plan['kids'])
        z = data.draw(st.integers(0, 5))
        if n >= 2 and z == 0:
            # supply the children in another order where the schema fixes the arrangement (the library re-orders)
            from ..oracle.schema import parikh
            if dfa.arrangements(parikh(word), limit=2) == 1:
                plan['order'] = list(data.draw(st.permutations(list(range(n)))))
        elif n >= 1 and z in (1, 2, 3):
            plan['readd'] = [data.draw(st.integers(0, n - 1)) for _ in range(data.draw(st.integers(1, 2)))]
    if plan['kids'] and data.draw(st.integers(0, 5)) == 0:
        # one child OBJECT is also given to a second parent (nothing forbids it); the original keeps serialising it
        plan['share'] = data.draw(st.integers(0, len(plan['kids']) - 1))
    if not plan['checked'] and data.draw(st.integers(0, 2)) == 0:
        # an unchecked element takes any child, whether or not its type has a content model at all
        for i in range(data.draw(st.integers(1, 2))):
            plan['kids'].append({'element': data.draw(st.sampled_from(JUNK_KIDS)), 'stub': True, 'v': 90 + i})
    return plan


def build(plan, reg=None):
    """returns element or raises (construction problems are not this property's subject); reg collects
    id(sub-plan) -> element"""
    e = _build(plan, reg)
    if reg is not None:
        reg[id(plan)] = e
    return e


def _build(plan, reg):
    if plan.get('stub'):
        if plan.get('v') is not None:
            # same-named siblings get different values so that a permutation among them is visible in the output
            s_ = schema()
            tt = s_.text_type(s_.element_type[plan['element']])
            if tt is not None:
                vs = [x for x in lexical.valid_texts(tt) if x != '']
                if vs:
                    ok, pv = lexical.python_value_for(tt, vs[plan['v'] % len(vs)])
                    if ok:
                        return cls_for(plan['element'])(pv, xsd_check=False)
        return driver.stub(plan['element'])
    c = cls_for(plan['element'])
    kw = {py_name(q.split(':')[-1]): v for q, v in plan['ctor'].items()}
    kw['xsd_check'] = plan['checked']
    if plan['value']:
        e = c(plan['value'][0], **kw)
    else:
        e = c(**kw)
    for q, v in plan['post']:
        setattr(e, py_name(q.split(':')[-1]), v)
    if plan['value'] and len(plan['value']) > 1:
        e.value_ = plan['value'][1]
    kids = [build(k, reg) for k in plan['kids']]
    order = plan.get('order') or list(range(len(kids)))
    for i in order:
        e.add_child(kids[i])
    # history before the copy: remove a child and add an equivalent one again (insertion order then differs from
    # document order among same-named children)
    if plan.get('share') is not None and kids:
        k = kids[plan['share'] % len(kids)]
        other = cls_for(k.name)          # any second parent will do: an unchecked element of the child's own class
        call(other(xsd_check=False).add_child, k) if driver.stub_value(k.name) is None else \
            call(other(driver.stub_value(k.name), xsd_check=False).add_child, k)
    for i in plan.get('readd', []):
        if kids:
            j = i % len(kids)
            e.remove(kids[j])
            kids[j] = build(plan['kids'][j], reg)
            e.add_child(kids[j])
    return e


def dump(e):
    kids = call(e.get_children, True)
    return [type(e).__name__, {k: repr(v) for k, v in sorted(dict(e.attributes).items())}, repr(e.value_),
            bool(e.xsd_check), [dump(c) for c in (kids.value if kids.ok else [])]]


def text(e):
    r = call(e.to_string)
    return ['ok', r.value] if r.ok else [r.etype, r.msg[:300]]


def mutate(e, m):
    """apply mutation m = [kind, ...] through the public API; failures of the mutation itself are irrelevant"""
    k = m[0]
    if k == 'attr':
        call(setattr, e, py_name(m[1].split(':')[-1]), m[2])
    elif k == 'value':
        call(setattr, e, 'value_', m[1])
    elif k == 'add':
        call(e.add_child, driver.stub(m[1]))
    elif k == 'remove':
        kids = call(e.get_children, False).value or []
        if kids:
            call(e.remove, kids[m[1] % len(kids)])
    elif k == 'nested-attr':
        kids = call(e.get_children, False).value or []
        if kids:
            call(setattr, kids[m[1] % len(kids)], py_name(m[2].split(':')[-1]), m[3])
    elif k == 'nested-value':
        kids = call(e.get_children, False).value or []
        if kids:
            call(setattr, kids[m[1] % len(kids)], 'value_', m[2])


def check(plan, muts, source='api', muts2=None):
    s = schema()
    t = s.element_type[plan['element']]
    inp = {'plan': plan, 'mutations': muts}
    if muts2:
        inp['mutations2'] = muts2

    def F(kind, observed):
        return {'kind': kind, 'type': t, 'site': None, 'input': inp, 'observed': observed,
                'expected': 'copy serialises identically, original untouched, trees independent'}
    r = call(build, plan)
    if not r.ok:
        return None, 'unbuildable'
    e = r.value
    d0, t0 = dump(e), text(e)
    rc = call(copy.deepcopy, e)
    if not rc.ok:
        return F('deepcopy-raised', '%s: %s' % (rc.etype, rc.msg[:200])), 'built'
    c = rc.value
    d1, t1 = dump(e), text(e)
    if d1 != d0 or t1 != t0:
        return F('original-changed-by-copying', {'before': t0[1][:200], 'after': t1[1][:200]}), 'built'
    dc, tc = dump(c), text(c)
    if tc != t0:
        return F('copy-serialises-differently', {'original': t0[1][:300], 'copy': tc[1][:300]}), 'built'
    if dc != d0:
        return F('copy-differs-structurally', _first_diff(d0, dc)), 'built'
    for m in muts:
        mutate(c, m)
    if dump(e) != d0 or text(e) != t0:
        return F('original-affected-by-mutating-copy', {'mutations': muts}), 'built'
    dc2, tc2 = dump(c), text(c)
    rev = list(reversed(muts)) or [['attr', 'id', 'zz9']]
    for m in rev:
        mutate(e, m)
    if dump(c) != dc2 or text(c) != tc2:
        return F('copy-affected-by-mutating-original', {'mutations': rev}), 'built'
    # a SECOND copy, taken after the original has changed (by mutations of its own, which the first copy never
    # saw), is a copy of the original as it is now
    for m in (muts2 or []):
        mutate(e, m)
    if muts2 and (dump(c) != dc2 or text(c) != tc2):
        return F('copy-affected-by-mutating-original', {'mutations': muts2}), 'built'
    d3, t3 = dump(e), text(e)
    r2 = call(copy.deepcopy, e)
    if not r2.ok:
        return F('deepcopy-raised', '%s: %s (second copy)' % (r2.etype, r2.msg[:200])), 'built'
    t4 = text(r2.value)
    if t4 != t3 or dump(r2.value) != d3:
        return F('copy-serialises-differently', {'second copy after mutating the original': True,
                                                 'original': t3[1][:300], 'copy': text(r2.value)[1][:300]}), 'built'
    if dump(c) != dc2 or text(c) != tc2:
        return F('copy-affected-by-mutating-original', {'by': 'taking a second copy'}), 'built'
    return None, 'built'


def sub_plan(plan, path):
    for i in path:
        plan = plan['kids'][i]
    return plan


def check_nested(plan, path, muts):
    """deep copy of a NESTED element (path = child indices in the plan): the copy must equal a detached rebuild of the
    same sub-plan, the original tree must be untouched, and afterwards the copy must not follow what happens to the
    original's ancestors (its parent being removed from the root) nor the original subtree's mutations"""
    s = schema()
    t = s.element_type[plan['element']]
    inp = {'plan': plan, 'mutations': muts, 'nested': list(path)}

    def F(kind, observed):
        return {'kind': kind, 'type': t, 'site': None, 'input': inp, 'observed': observed,
                'expected': 'copy of the nested element equals a detached rebuild, original untouched, independent'}
    reg = {}
    r = call(build, plan, reg)
    if not r.ok:
        return None, 'unbuildable'
    e = r.value
    sp = sub_plan(plan, path)
    target = reg[id(sp)]
    top = reg[id(plan['kids'][path[0]])]
    rt = call(build, sp)
    if not rt.ok:
        return None, 'unbuildable'
    want_d, want_t = dump(rt.value), text(rt.value)
    d0, t0, dt0 = dump(e), text(e), dump(target)
    if dt0 != want_d:
        return None, 'nested-differs-from-rebuild'      # not this property's subject
    rc = call(copy.deepcopy, target)
    if not rc.ok:
        return F('deepcopy-raised', '%s: %s' % (rc.etype, rc.msg[:200])), 'built'
    c = rc.value
    if dump(e) != d0 or text(e) != t0:
        return F('original-changed-by-copying', {'before': t0[1][:200], 'after': text(e)[1][:200]}), 'built'
    dc, tc = dump(c), text(c)
    if dc != want_d:
        return F('copy-differs-structurally', _first_diff(want_d, dc)), 'built'
    if tc != want_t:
        return F('copy-serialises-differently', {'detached rebuild': want_t[1][:300], 'copy': tc[1][:300]}), 'built'
    for m in muts:
        mutate(c, m)
    if dump(e) != d0 or text(e) != t0:
        return F('original-affected-by-mutating-copy', {'mutations': muts}), 'built'
    dc2, tc2 = dump(c), text(c)
    # the original's ancestors change: the top-level child holding the target leaves the root
    call(e.remove, top)
    if dump(c) != dc2 or text(c) != tc2:
        return F('copy-affected-by-mutating-original', {'mutations': [['remove-ancestor', path[0]]],
                                                        'before': tc2[1][:200], 'after': text(c)[1][:200]}), 'built'
    for m in list(reversed(muts)) or [['attr', 'id', 'zz9']]:
        mutate(target, m)
    if dump(c) != dc2 or text(c) != tc2:
        return F('copy-affected-by-mutating-original', {'mutations': muts}), 'built'
    return None, 'built'


def nested_paths(plan):
    out = []
    for i, k in enumerate(plan['kids']):
        out.append([i])
        if not k.get('stub'):
            out += [[i, j] for j in range(len(k['kids']))]
    return out


def _first_diff(a, b, path='root'):
    if a[:4] != b[:4]:
        return {'at': path, 'original': a[:4], 'copy': b[:4]}
    if len(a[4]) != len(b[4]):
        return {'at': path, 'children': [len(a[4]), len(b[4])]}
    for i, (x, y) in enumerate(zip(a[4], b[4])):
        d = _first_diff(x, y, '%s/%d' % (path, i))
        if d:
            return d
    return None


def replay_case(rec):
    inp = rec['input']
    if inp.get('nested'):
        return check_nested(inp['plan'], inp['nested'], inp['mutations'])[0]
    return check(inp['plan'], inp['mutations'], muts2=inp.get('mutations2'))[0]


def nontrivial(plan):
    def post_differs(p):
        if p.get('stub'):
            return False
        return bool(p['post']) or (p['value'] and len(p['value']) > 1) or any(post_differs(k) for k in p['kids'])
    nested = any(not k.get('stub') for k in plan['kids'])
    return post_differs(plan) and (nested or bool(plan['kids']))


def draw_mutations(data, plan):
    s = schema()
    t = s.element_type[plan['element']]
    muts = []
    attrs = usable_attrs(t)
    for _ in range(data.draw(st.integers(1, 3))):
        k = data.draw(st.sampled_from(['attr', 'attr-none', 'value', 'add', 'remove', 'nested-attr', 'nested-value']))
        if k == 'attr' and attrs:
            a = data.draw(st.sampled_from(attrs))
            muts.append(['attr', a['qname'], draw_attr_value(data, a)])
        elif k == 'attr-none' and attrs:
            a = data.draw(st.sampled_from(attrs))
            muts.append(['attr', a['qname'], None])
        elif k == 'value' and s.text_type(t) is not None:
            tt = s.text_type(t)
            ok, pv = lexical.python_value_for(tt, data.draw(st.sampled_from(lexical.valid_texts(tt))))
            if ok:
                muts.append(['value', pv])
        elif k == 'add' and s.content_kind(t) == 'elements':
            muts.append(['add', data.draw(st.sampled_from(s.alphabet(t)))])
        elif k == 'remove' and plan['kids']:
            muts.append(['remove', data.draw(st.integers(0, 5))])
        elif k == 'nested-attr' and plan['kids']:
            i = data.draw(st.integers(0, len(plan['kids']) - 1))
            ka = usable_attrs(s.element_type[plan['kids'][i]['element']])
            if ka:
                a = data.draw(st.sampled_from(ka))
                muts.append(['nested-attr', i, a['qname'], draw_attr_value(data, a)])
        elif k == 'nested-value' and plan['kids']:
            i = data.draw(st.integers(0, len(plan['kids']) - 1))
            tt = s.text_type(s.element_type[plan['kids'][i]['element']])
            if tt is not None:
                ok, pv = lexical.python_value_for(tt, data.draw(st.sampled_from(lexical.valid_texts(tt))))
                if ok:
                    muts.append(['nested-value', i, pv])
    return muts


def shards(ctx):
    return [{'index': i} for i in range(16)]


def run_shard(ctx, shard, acc):
    s = schema()
    names = sorted(n for n, t in s.element_type.items() if t not in EXCLUDED_TYPES)
    excluded = len(s.element_type) - len(names)
    acc.extras['excluded_elements_by_known_finding_scope'] = excluded

    parents = [n for n in names if s.content_kind(s.element_type[n]) == 'elements']

    def body(data):
        el = data.draw(st.sampled_from(parents)) if data.draw(st.integers(0, 3)) > 0 \
            else data.draw(st.sampled_from(names))
        plan = draw_plan(data, el, depth=data.draw(st.integers(2, 3)))
        muts = draw_mutations(data, plan)
        muts2 = draw_mutations(data, plan) if data.draw(st.integers(0, 1)) else None
        f, status = check(plan, muts, muts2=muts2)
        acc.count(status)
        if status == 'built':
            acc.case({'plan': plan, 'mutations': muts}, nontrivial(plan), len(str(plan)))
        if f:
            acc.fail(f)
        paths = nested_paths(plan)
        if paths and status == 'built':
            path = data.draw(st.sampled_from(paths))
            sp = sub_plan(plan, path)
            m2 = [] if sp.get('stub') else draw_mutations(data, sp)
            f, status = check_nested(plan, path, m2)
            acc.count('nested-' + status)
            if status == 'built':
                acc.case({'plan': plan, 'mutations': m2, 'nested': path}, len(path) > 1 or not sp.get('stub'),
                         len(str(plan)))
            if f:
                acc.fail(f)

    hyp_search(acc, body, mix(ctx.seed, 'C14', shard['index']), ctx.budget(700, 14000))
