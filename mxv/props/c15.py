"""C15 - shortcut syntax (xml_* / attribute dot assignment / constructor keywords) == explicit API."""
import xml.etree.ElementTree as ET

from hypothesis import strategies as st

from .. import driver, gen
from ..driver import call, cls_for, fresh, py_name, stub
from ..history import draw_symbol, Run
from ..oracle import lexical
from ..oracle.schema import schema
from ..run import hyp_search, mix

RULE = ('(a) name layer, enumerated completely: every element class x every schema child name and every schema '
        'attribute name (dot name derived from the ORACLE\'s name): unset read returns None, set-by-dot == explicit '
        'add_child / constructor keyword (same verdict, same text), read-back returns the stored child / value, '
        '=None removes, =None on an unset attribute (by dot and by constructor keyword) is a silent no-op; undeclared names raise AttributeError on read and write; for every repeatable child: with three same-named children the dot read returns the first one the serialisation shows, also after replace_child of the 2nd / 3rd, and =None then removes exactly that child (twin: explicit remove); xml_x = an instance of ANOTHER class is refused and changes nothing; where a removal followed by an addition makes insertion order and document order of same-named text children differ, xml_x = value / instance / None equals find_child + value_ / replace_child / remove.  (b) Hypothesis-drawn intent '
        'sequences (child := value | instance | None, attribute := value | None, constructor keywords; plain add_child calls on both surfaces create states with several same-named children, holes after removals included) executed '
        'once through the dot surface and once through add_child / replace_child / remove / value_ / constructor '
        'keywords; after every intent both elements must agree on exception-vs-success, exception type for child / '
        'value reasons, children (names, order), attributes, value and to_string text or verdict.  Non-trivial = a '
        'sequence with >=1 replacement and >=1 removal; name layer: each (class, name) counts once.')
ASSUMPTIONS = ['"explicit" for attributes means constructor keywords (the library has no other explicit attribute '
               'method); unknown-name failures: AttributeError on the dot side vs the library\'s wrong-attribute / '
               'wrong-element error on the explicit side, as the property states']
EXHAUSTIVE = False


def _canon(text):
    """attribute order is not part of the XML infoset: compare canonical XML (attributes sorted)"""
    try:
        return ET.canonicalize(text)
    except ET.ParseError:
        return text


def snapshot(e):
    kids = call(e.get_children, True)
    r = call(e.to_string)
    return {'children': [c.name for c in kids.value] if kids.ok else 'ERR:' + kids.etype,
            'attrs': {k: repr(v) for k, v in sorted(dict(e.attributes).items())}, 'value': repr(e.value_),
            'string': ['ok', _canon(r.value)] if r.ok else [r.etype, r.msg[:200]]}


def F(kind, t, inp, observed, expected='dot surface equivalent to explicit API', site=None):
    return {'kind': kind, 'type': t, 'site': site, 'input': inp, 'observed': observed, 'expected': expected}


# -- name layer ------------------------------------------------------------------------------------

def name_child(el, child):
    s = schema()
    t = s.element_type[el]
    inp = {'layer': 'child-name', 'element': el, 'child': child}
    dot = 'xml_' + py_name(child)
    ra = call(fresh, el)
    rb = call(fresh, el)
    if not ra.ok:
        return F('construction-failed', t, inp, '%s: %s' % (ra.etype, ra.msg[:100]), site=ra.site)
    a, b = ra.value, rb.value
    r = call(getattr, a, dot)
    if not r.ok or r.value is not None:
        return F('unset-child-read-not-none', t, inp, r.etype if not r.ok else repr(r.value), None, r.site)
    ca, cb = stub(child), stub(child)
    r1 = call(setattr, a, dot, ca)
    r2 = call(b.add_child, cb)
    if r1.ok != r2.ok:
        return F('dot-set-differs-from-add-child', t, inp, {'dot': r1.verdict(), 'explicit': r2.verdict()},
                 site=r1.site or r2.site)
    if r1.ok:
        if snapshot(a) != snapshot(b):
            return F('dot-set-differs-from-add-child', t, inp, {'dot': snapshot(a), 'explicit': snapshot(b)})
        r = call(getattr, a, dot)
        if not r.ok or r.value is not ca:
            return F('dot-read-not-the-child', t, inp, r.etype if not r.ok else repr(r.value), site=r.site)
        r1 = call(setattr, a, dot, None)
        r2 = call(b.remove, cb)
        if r1.ok != r2.ok or snapshot(a) != snapshot(b):
            return F('dot-none-differs-from-remove', t, inp, {'dot': r1.verdict(), 'explicit': r2.verdict()})
        if call(a.get_children, False).value:
            return F('dot-none-did-not-remove', t, inp, [c.name for c in a.get_children(False)])
    # xml_<child> names ONE child class: an instance of another class is not a value for it - refused, nothing changes
    # (the explicit API has no call that would put a <y> where an <x> was asked for)
    others = [y for y in s.alphabet(t) if y != child][:2] + ['staff' if child != 'staff' else 'dot']
    for y in others:
        rc = call(fresh, el)
        if not rc.ok:
            break
        c = rc.value
        before = snapshot(c)
        r = call(setattr, c, dot, stub(y))
        if r.ok or snapshot(c) != before:
            return F('dot-accepts-instance-of-another-class', t, dict(inp, offered=y),
                     {'verdict': r.verdict(), 'children': [k.name for k in call(c.get_children, False).value or []]},
                     'refused', r.site)
    return None


def name_attr(el, q):
    s = schema()
    t = s.element_type[el]
    a_decl = [x for x in s.attributes_of(t) if x['qname'] == q][0]
    inp = {'layer': 'attr-name', 'element': el, 'attribute': q}
    dot = py_name(q.split(':')[-1])
    ra = call(fresh, el, True, False)
    if not ra.ok:
        return F('construction-failed', t, inp, '%s: %s' % (ra.etype, ra.msg[:100]), site=ra.site)
    a = ra.value
    r = call(getattr, a, dot)
    if not r.ok or r.value is not None:
        return F('unset-attribute-read-not-none', t, inp, r.etype if not r.ok else repr(r.value), None, r.site)
    # =None on an attribute that is not set is the dictionary update attributes.pop(name, None): a silent no-op,
    # by dot and by constructor keyword alike
    r = call(setattr, a, dot, None)
    if not r.ok or dict(a.attributes):
        return F('attribute-none-on-unset-not-a-no-op', t, inp, r.verdict() if not r.ok else dict(a.attributes),
                 site=r.site)
    v0 = driver.stub_value(el)
    a0 = (v0,) if (v0 is not None and s.content_kind(t) in ('simple', 'text')) else ()
    r = call(cls_for(el), *a0, **{dot: None, 'xsd_check': False})
    if not r.ok or dict(r.value.attributes):
        return F('attribute-none-on-unset-not-a-no-op', t, dict(inp, via='keyword'),
                 r.verdict() if not r.ok else dict(r.value.attributes), site=r.site)
    txt = a_decl['fixed'] or lexical.valid_texts(a_decl['type'])[0]
    ok, pv = lexical.python_value_for(a_decl['type'], txt)
    r1 = call(setattr, a, dot, pv)
    v = driver.stub_value(el)
    cls = cls_for(el)
    kw = {dot: pv}
    r2 = call(cls, v, **kw) if (v is not None and s.content_kind(t) in ('simple', 'text')) else call(cls, **kw)
    if r1.ok != r2.ok:
        return F('dot-attr-differs-from-keyword', t, inp, {'dot': r1.verdict(), 'keyword': r2.verdict()},
                 site=r1.site or r2.site)
    if not r1.ok:
        return F('declared-attribute-rejected', t, inp, '%s: %s' % (r1.etype, r1.msg[:100]), site=r1.site)
    b = r2.value
    if snapshot(a) != snapshot(b):
        return F('dot-attr-differs-from-keyword', t, inp, {'dot': snapshot(a)['attrs'], 'keyword': snapshot(b)['attrs']})
    r = call(getattr, a, dot)
    if not r.ok or r.value != pv:
        return F('attribute-read-not-stored-value', t, inp, r.etype if not r.ok else repr(r.value), repr(pv), r.site)
    r = call(setattr, a, dot, None)
    if not r.ok or dict(a.attributes):
        return F('attribute-none-did-not-remove', t, inp, r.etype if not r.ok else dict(a.attributes), site=r.site)
    return None


def name_multi(el, child, which=1):
    """several same-named children: the dot read returns the first one serialisation shows, also after an explicit
    replace_child of a later one; xml_x = None removes that same child (twin: explicit remove of the first)"""
    s = schema()
    t = s.element_type[el]
    inp = {'layer': 'multi', 'element': el, 'child': child, 'which': which}
    dot = 'xml_' + py_name(child)
    built = []
    for _ in range(2):
        r = call(fresh, el)
        if not r.ok:
            return None
        e = r.value
        kids = []
        for i in range(3):
            c = stub(child)
            if not call(e.add_child, c).ok:
                return None        # not repeatable here: nothing to compare
            kids.append(c)
        built.append((e, kids))
    (a, ka), (b, kb) = built

    def first_shown(e):
        r = call(e.get_children, True)
        same = [c for c in (r.value if r.ok else []) if c.name == child]
        return same[0] if same else None
    if [c.name for c in call(a.get_children, True).value] != [child] * 3 or first_shown(a) is not ka[0]:
        return None            # the matcher re-ordered same-named children: C12's subject
    r = call(getattr, a, dot)
    if not r.ok or r.value is not first_shown(a):
        return F('dot-read-not-the-first-shown-child', t, inp, r.verdict() if not r.ok else 'another child', site=r.site)
    for e, kids in built:
        if not call(e.replace_child, kids[which], stub(child)).ok:
            return None
    if first_shown(a) is not ka[0]:
        return None            # replace_child moved children in the schema-ordered view: C06's subject
    r = call(getattr, a, dot)
    if not r.ok or r.value is not ka[0]:
        return F('dot-read-not-the-first-shown-child', t, dict(inp, after='replace_child of a later same-named child'),
                 r.verdict() if not r.ok else 'child %s' % (
                     [i for i, c in enumerate(call(a.get_children, True).value) if c is r.value] or ['not shown']),
                 site=r.site)
    r1 = call(setattr, a, dot, None)
    r2 = call(b.remove, kb[0])
    if r1.ok != r2.ok or snapshot(a) != snapshot(b):
        return F('dot-none-differs-from-remove', t, dict(inp, after='replace_child of a later same-named child'),
                 {'dot': r1.verdict(), 'explicit': r2.verdict(), 'dot-state': snapshot(a).get('string'),
                  'explicit-state': snapshot(b).get('string')})
    return None


def _values_for(child, n):
    s = schema()
    tt = s.text_type(s.element_type[child])
    out = []
    if tt is not None:
        for txt in lexical.valid_texts(tt):
            ok, pv = lexical.python_value_for(tt, txt)
            if ok and txt != '' and pv not in out:
                out.append(pv)
            if len(out) >= n:
                break
    return out


def name_holes(el, child):
    """two same-named children in DIFFERENT places of the content model, the first removed and a third added (it takes
    the free place, so insertion order and document order differ): xml_x = value / instance / None must still do
    exactly what find_child + value_ / replace_child / remove do"""
    s = schema()
    t = s.element_type[el]
    vals = _values_for(child, 4)
    if len(vals) < 4:
        return None, 'no-distinct-values'
    cls = cls_for(child)
    cname = cls.__name__
    dot = 'xml_' + py_name(child)

    def build():
        r = call(fresh, el)
        if not r.ok:
            return None
        e = r.value
        ks = []
        for v in vals[:2]:
            k = cls(v, xsd_check=False)
            if not call(e.add_child, k).ok:
                return None
            ks.append(k)
        if not call(e.remove, ks[0]).ok:
            return None
        k2 = cls(vals[2], xsd_check=False)
        if not call(e.add_child, k2).ok:
            return None
        return e
    probe = build()
    if probe is None:
        return None, 'not-buildable'
    ordered = [c.value_ for c in call(probe.get_children, True).value if c.name == child]
    unordered = [c.value_ for c in call(probe.get_children, False).value if c.name == child]
    if ordered == unordered:
        return None, 'no-hole'
    for how in ('value', 'instance', 'none'):
        a, b = build(), build()
        found = call(b.find_child, cname).value
        if how == 'value':
            r1 = call(setattr, a, dot, vals[3])
            r2 = call(setattr, found, 'value_', vals[3])
        elif how == 'instance':
            r1 = call(setattr, a, dot, cls(vals[3], xsd_check=False))
            r2 = call(b.replace_child, found, cls(vals[3], xsd_check=False))
        else:
            r1 = call(setattr, a, dot, None)
            r2 = call(b.remove, found)
        sa, sb = snapshot(a), snapshot(b)
        if r1.ok != r2.ok or sa != sb:
            return F('surface-result-differs', t, {'layer': 'holes', 'element': el, 'child': child, 'how': how},
                     {'dot': [r1.verdict()[0], sa.get('string')], 'explicit': [r2.verdict()[0], sb.get('string')]}), 'compared'
    return None, 'compared'


def name_unknown(el, _):
    s = schema()
    t = s.element_type[el]
    inp = {'layer': 'unknown-name', 'element': el}
    ra = call(fresh, el)
    if not ra.ok:
        return None
    a = ra.value
    for nm, val in (('xml_bogus_child_zz', 'x'), ('bogus_attr_zz', 'x')):
        r = call(getattr, a, nm)
        if r.ok or r.etype != 'AttributeError':
            return F('unknown-name-read', t, dict(inp, name=nm), r.verdict(), 'AttributeError', r.site)
        r = call(setattr, a, nm, val)
        if r.ok or r.etype != 'AttributeError':
            return F('unknown-name-write', t, dict(inp, name=nm), r.verdict(), 'AttributeError', r.site)
    return None


# -- generated layer -------------------------------------------------------------------------------

def apply_dot(e, it):
    k = it[0]
    if k == 'child-value':
        return call(setattr, e, 'xml_' + py_name(it[1]), it[2])
    if k == 'child-inst':
        return call(setattr, e, 'xml_' + py_name(it[1]), stub(it[1]))
    if k == 'child-none':
        return call(setattr, e, 'xml_' + py_name(it[1]), None)
    if k == 'attr':
        return call(setattr, e, py_name(it[1].split(':')[-1]), it[2])
    if k == 'child-add':
        return call(e.add_child, stub(it[1]))
    raise ValueError(k)


def apply_explicit(e, it):
    k = it[0]
    if k == 'child-add':
        # the same explicit call on both surfaces: it only prepares states with several same-named children
        return call(e.add_child, stub(it[1]))
    if k.startswith('child'):
        cname = type(e).__module__ and driver.convert_to_xml_class_name(it[1])
        r0 = call(getattr, driver.X, cname)
        found = call(e.find_child, cname).value
        if k == 'child-value':
            if found is not None:
                return call(setattr, found, 'value_', it[2])
            rc = call(cls_for(it[1]), it[2])
            if not rc.ok:
                return rc
            return call(e.add_child, rc.value)
        if k == 'child-inst':
            if found is not None:
                return call(e.replace_child, found, stub(it[1]))
            return call(e.add_child, stub(it[1]))
        if k == 'child-none':
            if found is not None:
                return call(e.remove, found)
            return call(lambda: None)
    raise ValueError(k)


def check_sequence(el, ctor_kw, intents):
    s = schema()
    t = s.element_type[el]
    inp = {'layer': 'sequence', 'element': el, 'ctor': ctor_kw, 'intents': intents}
    cls = cls_for(el)
    v = driver.stub_value(el)
    args = (v,) if (v is not None and s.content_kind(t) in ('simple', 'text')) else ()
    kw = {py_name(q.split(':')[-1]): val for q, val in ctor_kw.items()}
    # surface 1: constructor keywords then dot intents; surface 2: empty constructor, attributes by dot, children
    # by explicit calls; final attribute intents are folded into surface 2's constructor keywords instead
    attr_final = dict(kw)
    for it in intents:
        if it[0] == 'attr':
            attr_final[py_name(it[1].split(':')[-1])] = it[2]
    ra = call(cls, *args, **kw)
    rb = call(cls, *args, **{k: val for k, val in attr_final.items() if val is not None})
    if not ra.ok or not rb.ok:
        return None   # construction failure is C04's subject; no comparison defined
    a, b = ra.value, rb.value
    for i, it in enumerate(intents):
        r1 = apply_dot(a, it)
        if it[0] == 'attr':
            if not r1.ok and it[2] is None:
                return F('attribute-none-raised', t, inp, {'step': i, 'dot': r1.verdict()}, site=r1.site)
            if not r1.ok:
                return None   # invalid attribute intent: surfaces not comparable by folding
            continue
        r2 = apply_explicit(b, it)
        if r1.ok != r2.ok:
            return F('surface-verdict-differs', t, inp, {'step': i, 'dot': r1.verdict(), 'explicit': r2.verdict()},
                     site=r1.site or r2.site)
        if not r1.ok and r1.etype != r2.etype and not (r1.etype == 'AttributeError'):
            return F('surface-exception-type-differs', t, inp,
                     {'step': i, 'dot': r1.etype, 'explicit': r2.etype}, site=r1.site)
        sa, sb = snapshot(a), snapshot(b)
        sa.pop('attrs'), sb.pop('attrs')
        sa_str, sb_str = sa.pop('string'), sb.pop('string')
        if sa != sb:
            return F('surface-state-differs', t, inp, {'step': i, 'dot': sa, 'explicit': sb})
        # reading: e.xml_x is a child that the element shows (document-ordered view), None when it shows none -
        # also after an assignment that was refused
        rr = call(getattr, a, 'xml_' + py_name(it[1]))
        shown = [c for c in (call(a.get_children, True).value or []) if c.name == it[1]]
        if rr.ok and ((rr.value is None) != (not shown) or (shown and not any(rr.value is c for c in shown))):
            return F('dot-read-returns-child-not-shown', t, inp,
                     {'step': i, 'read': None if rr.value is None else rr.value.name, 'shown': len(shown),
                      'after': r1.verdict()[0]})
    sa, sb = snapshot(a), snapshot(b)
    if sa != sb:
        return F('surface-result-differs', t, inp, {'dot': sa, 'explicit': sb})
    return None


def replay_case(rec):
    inp = rec['input']
    if inp['layer'] == 'child-name':
        return name_child(inp['element'], inp['child'])
    if inp['layer'] == 'attr-name':
        return name_attr(inp['element'], inp['attribute'])
    if inp['layer'] == 'unknown-name':
        return name_unknown(inp['element'], None)
    if inp['layer'] == 'holes':
        return name_holes(inp['element'], inp['child'])[0]
    if inp['layer'] == 'multi':
        return name_multi(inp['element'], inp['child'], inp.get('which', 1))
    return check_sequence(inp['element'], inp['ctor'], inp['intents'])


def shards(ctx):
    s = schema()
    obs = []
    for el in sorted(s.element_type):
        t = s.element_type[el]
        if s.content_kind(t) == 'elements':
            for c in s.alphabet(t):
                obs.append(('child', el, c))
                obs.append(('multi', el, c))
                obs.append(('holes', el, c))
        for a in s.attributes_of(t):
            obs.append(('attr', el, a['qname']))
        obs.append(('unknown', el, None))
    jobs = [{'mode': 'names', 'obs': part} for part in gen.chunk(obs, 16)]
    for i in range(16):
        jobs.append({'mode': 'random', 'index': i})
    return jobs


def run_shard(ctx, shard, acc):
    s = schema()
    if shard['mode'] == 'names':
        fn = {'child': name_child, 'attr': name_attr, 'unknown': name_unknown,
              'multi': lambda el, x: name_multi(el, x, 1) or name_multi(el, x, 2)}
        for kind, el, x in shard['obs']:
            if kind == 'holes':
                f, status = name_holes(el, x)
                acc.count('holes-' + status)
                if status == 'compared':
                    acc.case({'layer': 'holes', 'element': el, 'child': x}, True)
                if f:
                    acc.fail(f, raise_=False)
                continue
            acc.case({'layer': kind, 'element': el, 'name': x}, True)
            acc.count('name-' + kind)
            f = fn[kind](el, x)
            if f:
                acc.fail(f, raise_=False)
        return
    te = gen.types_and_elements(all_elements=not ctx.quick)

    def body(data):
        t, els = data.draw(st.sampled_from(te))
        el = data.draw(st.sampled_from(els))
        run = Run(el)   # only used for oracle-steered symbol drawing
        if run.e is None:
            return
        attrs = [a for a in s.attributes_of(t) if not a['qname'].startswith('xlink:')
                 and a['qname'] not in ('xml:space', 'name') and a['type'] != 'xs:anyURI']
        ctor = {}
        for a in attrs:
            if a['required'] or data.draw(st.integers(0, 6)) == 0:
                ok, pv = lexical.python_value_for(a['type'], data.draw(st.sampled_from(lexical.valid_texts(a['type']))))
                if ok:
                    ctor[a['qname']] = pv
        intents = []
        flags = set()
        held = []
        lastval = {}
        for _ in range(data.draw(st.integers(1, 10 if ctx.quick else 20))):
            k = data.draw(st.sampled_from(['child-inst', 'child-inst', 'child-value', 'child-value', 'child-none',
                                           'child-none', 'attr', 'child-add', 'child-add']))
            if k == 'attr':
                if not attrs:
                    continue
                a = data.draw(st.sampled_from(attrs))
                if data.draw(st.integers(0, 3)) == 0 and not a['required']:
                    intents.append(['attr', a['qname'], None])
                else:
                    ok, pv = lexical.python_value_for(a['type'],
                                                      data.draw(st.sampled_from(lexical.valid_texts(a['type']))))
                    if ok:
                        intents.append(['attr', a['qname'], pv])
                continue
            run.model = []   # symbol classes relative to what the model believes is held
            for nme in held:
                run.model.append(type('N', (), {'name': nme})())
            sym, c = draw_symbol(data, run, {'prefix': 5, 'compatible': 4, 'incompatible': 2, 'foreign': 0})
            if k == 'child-none' and held and data.draw(st.integers(0, 2)) > 0:
                sym = data.draw(st.sampled_from(sorted(set(held))))
            if k == 'child-value':
                tt = s.text_type(s.element_type[sym])
                if tt is None:
                    k = 'child-inst'
                else:
                    good = data.draw(st.integers(0, 4)) > 0
                    prev = lastval.get(sym)
                    if isinstance(prev, (int, float)) and not isinstance(prev, bool) and data.draw(st.integers(0, 1)):
                        # the value the child already holds, spelt as another Python type (2 / 2.0, 1 / True): the
                        # shortcut must do exactly what value_ = ... does - store it, or raise the same error
                        alts = [float(prev)] if isinstance(prev, int) else ([int(prev)] if prev == int(prev) else [])
                        alts += [True] if prev == 1 else ([False] if prev == 0 else [])
                        if alts:
                            pv = data.draw(st.sampled_from(alts))
                            intents.append(['child-value', sym, pv])
                            flags.add('equal-value-other-type')
                            continue
                    if good:
                        ok, pv = lexical.python_value_for(tt, data.draw(st.sampled_from(lexical.valid_texts(tt))))
                        if not ok:
                            continue
                        lastval[sym] = pv
                    else:
                        pv = data.draw(st.sampled_from((lexical.invalid_texts(tt) or []) + [2.5, -3]))
                    intents.append(['child-value', sym, pv])
                    if sym in held:
                        flags.add('replacement')
                    elif good and c != 'incompatible':
                        held.append(sym)
                    continue
            if k == 'child-add':
                if held and data.draw(st.integers(0, 1)):
                    sym = data.draw(st.sampled_from(sorted(set(held))))     # another child of a name already held
                intents.append(['child-add', sym])
                if sym in held:
                    flags.add('same-named-children')
                if c != 'incompatible' or sym in held:
                    held.append(sym)
                continue
            if k == 'child-inst':
                intents.append(['child-inst', sym])
                if sym in held:
                    flags.add('replacement')
                elif c != 'incompatible':
                    held.append(sym)
            elif k == 'child-none':
                intents.append(['child-none', sym])
                if sym in held:
                    held.remove(sym)
                    flags.add('removal')
        acc.case({'element': el, 'ctor': ctor, 'intents': intents},
                 {'replacement', 'removal'} <= flags, len(intents))
        for fl in flags:
            acc.count(fl)
        f = check_sequence(el, ctor, intents)
        if f:
            acc.fail(f)

    hyp_search(acc, body, mix(ctx.seed, 'C15', shard['index']), ctx.budget(600, 12000))
