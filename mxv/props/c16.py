"""C16 - serialisation is well-formed, escaping-safe, deterministic and side-effect free."""
from decimal import Decimal
import xml.etree.ElementTree as ET

from hypothesis import strategies as st

from .. import driver
from ..driver import call
from ..oracle import lexical
from ..oracle.schema import schema
from ..run import hyp_search, mix
from . import c14

RULE = ('element trees (depth<=4) built from oracle-valid child words; into EVERY string-typed text position '
        '(xs:string / xs:token primitives without enumeration) and string-typed attribute position a Hypothesis-drawn '
        'string over the XML Char production minus CR is injected (biased to < > & " \' ]]> TAB LF, whitespace runs, '
        'non-BMP, combining marks), and into unbounded decimal-typed text and attribute positions floats whose repr needs the exponent notation or many digits (the recovered text must be a plain decimal literal of exactly that value); values the library rejects are discarded (the property is about accepted '
        'values).  Oracle: xml.etree parses to_string(); every injected text and attribute value is recovered '
        'exactly and the element structure equals get_children(ordered); three repeated calls return identical '
        'text; every subtree serialised alone equals its fragment in the parent\'s output once indentation '
        '(whitespace-only text/tail of elements that have children) is removed; a twin that performs the same '
        'mutations but none of the intermediate to_string calls (on root and on subtrees, both intelligent_choice '
        'values) ends with the identical public dump and text.  Non-trivial = an injected value contains a markup '
        'character, TAB/LF or a non-BMP character AND both a subtree and its root were serialised; distinct by plan.')
ASSUMPTIONS = ['control characters other than TAB/LF and CR are outside the domain (not XML Chars / not preserved by XML)']
EXHAUSTIVE = False

SPECIAL = ['<', '>', '&', '"', "'", ']]>', '\t', '\n', '  ', ' ', '\n  ', '\n    ', 'a\n      b  \n  c', '\n\t', '&amp;', '&lt;', '<!--', '-->', '<?x?>', '\U0001D11E',
           'é', ' ', ' ', '�', '<a b="c">', '{', '}', '%s', '\\', '　']
XML_CHARS = st.characters(min_codepoint=0x20, max_codepoint=0x10FFFF, exclude_categories=('Cs',),
                          exclude_characters='￾￿')


def xml_text():
    piece = st.one_of(st.sampled_from(SPECIAL), st.sampled_from(SPECIAL), st.text(XML_CHARS, min_size=0, max_size=6),
                      st.text('abc xyz', min_size=0, max_size=5))
    return st.lists(piece, min_size=1, max_size=5).map(''.join)


def string_type(tname):
    """free-string simple type (no enumeration; pattern only comma-separated-text handled by avoiding commas)"""
    if tname is None:
        return None
    ti = lexical.info(tname)
    if ti.union is not None or ti.primitive != 'string' or ti.enumeration is not None:
        return None
    if any(b in ti.chain for b in ('xs:NMTOKEN', 'xs:Name', 'xs:language')):
        return None
    if ti.patterns:
        return 'nocomma' if ti.patterns == [r'[^,]+(, ?[^,]+)*'] else None
    return 'minlen' if ti.min_length else 'free'


# numbers whose repr uses the exponent notation or many digits: the text must give back exactly this number
FINE_FLOATS = [1.234e-05, 1.25e-07, -3.3e-09, 2.5e-05, 1e-05, 0.1 + 0.2, 123456.789012345, 1e+16, -0.0001234567, 7e-10]


def free_decimal(tname):
    """decimal (not integer) simple type without bounds: every finite float is a value"""
    if tname is None:
        return False
    ti = lexical.info(tname)
    return ti.union is None and ti.primitive == 'decimal' and not ti.is_integer and ti.enumeration is None and \
        all(b is None for b in (ti.min_inc, ti.max_inc, ti.min_exc, ti.max_exc))


def same_value(val, txt):
    """does the recovered text stand for the value that was set?  strings exactly; numbers by value, and the text
    must be a plain decimal literal"""
    if isinstance(val, (int, float)) and not isinstance(val, bool):
        if isinstance(val, int) and not txt.lstrip('+-').isdigit():
            return False          # an int is written as an integer literal ("7", never "7.0")
        try:
            return 'e' not in txt.lower() and Decimal(txt) == Decimal(repr(val))
        except ArithmeticError:
            return False
    return str(val) == txt


def inject(data, plan, log):
    s = schema()
    if plan.get('stub'):
        return
    t = s.element_type[plan['element']]
    k = string_type(s.text_type(t))
    if k:
        v = data.draw(xml_text())
        if k == 'nocomma':
            v = v.replace(',', ';') or 'x'
        plan['value'] = [v]
        log.append(v)
    tt = s.text_type(t)
    if not k and free_decimal(tt) and data.draw(st.integers(0, 2)) == 0:
        plan['value'] = [data.draw(st.sampled_from(FINE_FLOATS))]
        log.append('float')
    for a in c14.usable_attrs(t):
        if free_decimal(a['type']) and data.draw(st.integers(0, 3)) == 0:
            plan['ctor'][a['qname']] = data.draw(st.sampled_from(FINE_FLOATS))
            log.append('float')
            continue
        ka = string_type(a['type'])
        if ka and data.draw(st.integers(0, 1)) == 0:
            v = data.draw(xml_text())
            if ka == 'nocomma':
                v = v.replace(',', ';') or 'x'
            plan['ctor'][a['qname']] = v
            log.append(v)
    for kid in plan['kids']:
        inject(data, kid, log)


def strip_ws(node):
    """remove indentation: whitespace-only text of elements with children and whitespace-only tails"""
    if len(node) and (node.text is None or not node.text.strip()):
        node.text = None
    for c in node:
        if c.tail is None or not c.tail.strip():
            c.tail = None
        strip_ws(c)
    return node


def compare_tree(e, node, path='root'):
    """python element vs parsed node; returns description of first mismatch or None"""
    if node.tag != e.name:
        return {'at': path, 'tag': node.tag, 'name': e.name}
    want = dict(e.attributes)
    if set(node.attrib) != set(want) or any(not same_value(v, node.attrib[k]) for k, v in want.items()):
        return {'at': path, 'attributes': dict(node.attrib), 'set': {k: repr(v) for k, v in want.items()}}
    kids = call(e.get_children, True).value or []
    if len(kids) != len(node):
        return {'at': path, 'children': [c.tag for c in node], 'ordered': [c.name for c in kids]}
    if not kids:
        val = e.value_
        txt = node.text or ''
        if val is not None and not same_value(val, txt):
            return {'at': path, 'text': txt, 'value': repr(val)}
    for i, (c, n) in enumerate(zip(kids, node)):
        d = compare_tree(c, n, '%s/%s[%d]' % (path, c.name, i))
        if d:
            return d
    return None


def check(plan, script):
    s = schema()
    t = s.element_type[plan['element']]
    inp = {'plan': plan, 'script': script}

    def F(kind, observed):
        return {'kind': kind, 'type': t, 'site': None, 'input': inp, 'observed': observed,
                'expected': 'well-formed, exact recovery, repeatable, side-effect free'}
    rb = call(c14.build, plan)
    if not rb.ok:
        return None, 'unbuildable', False
    e = rb.value
    r1 = call(e.to_string)
    if not r1.ok:
        return None, 'incomplete', False
    try:
        root = ET.fromstring(r1.value)
    except ET.ParseError as ex:
        return F('output-not-well-formed', str(ex)), 'built', False
    d = compare_tree(e, root)
    if d:
        return F('value-or-structure-not-recovered', d), 'built', False
    for _ in range(2):
        r = call(e.to_string)
        if not r.ok or r.value != r1.value:
            return F('repeated-call-differs', r.etype if not r.ok else 'text differs'), 'built', False
    # subtree alone == fragment inside parent
    kids = call(e.get_children, True).value or []
    sub_done = False
    root_s = strip_ws(ET.fromstring(r1.value))
    for i, c in enumerate(kids):
        rc = call(c.to_string)
        if not rc.ok:
            continue
        sub_done = True
        alone = ET.tostring(strip_ws(ET.fromstring(rc.value)), encoding='unicode')
        frag = root_s[i]
        frag.tail = None
        inside = ET.tostring(frag, encoding='unicode')
        if alone != inside:
            return F('subtree-differs-from-fragment', {'alone': alone[:300], 'inside': inside[:300]}), 'built', True
    r = call(e.to_string)
    if not r.ok or r.value != r1.value:
        return F('subtree-serialisation-changed-root-output', r.etype if not r.ok else 'text differs'), 'built', True
    # the raw text of every subtree (two levels) is the same whether it is serialised before any ancestor (fresh
    # twin), after the root, or once more after another root call - "changes no later result" read literally
    def sub_texts(x):
        out = []
        for c in call(x.get_children, True).value or []:
            rc = call(c.to_string)
            out.append(rc.value if rc.ok else 'exc:' + str(rc.etype))
            for g in call(c.get_children, True).value or []:
                rg = call(g.to_string)
                out.append(rg.value if rg.ok else 'exc:' + str(rg.etype))
        return out
    rf = call(c14.build, plan)
    if rf.ok:
        first = sub_texts(rf.value)          # nothing above them has been serialised yet
        after_root = sub_texts(e)            # e: root and children serialised several times already
        call(rf.value.to_string)
        again = sub_texts(rf.value)
        if not (first == after_root == again):
            i = next((j for j in range(min(len(first), len(after_root), len(again)))
                      if not (first[j] == after_root[j] == again[j])), -1)
            return F('subtree-text-depends-on-earlier-serialisation',
                     {'index': i, 'before_any_ancestor': repr(first[i])[:200] if i >= 0 else len(first),
                      'after_root': repr(after_root[i])[:200] if i >= 0 else len(after_root),
                      'after_root_again': repr(again[i])[:200] if i >= 0 else len(again)}), 'built', True
    # side-effect freedom under mutation: twin without the intermediate serialisations
    a = e
    b = c14.build(plan)
    for st_ in script:
        if st_[0] == 'ser':
            target = a
            if st_[1] >= 0:
                ks = call(a.get_children, False).value or []
                if ks:
                    target = ks[st_[1] % len(ks)]
            call(target.to_string, intelligent_choice=bool(st_[2]))
        else:
            c14.mutate(a, st_[1])
            c14.mutate(b, st_[1])
    da, db = c14.dump(a), c14.dump(b)
    ta, tb = c14.text(a), c14.text(b)
    if da != db or ta != tb:
        return F('serialisation-had-side-effects', {'with': ta[1][:200] if ta != tb else c14._first_diff(da, db),
                                                    'without': tb[1][:200] if ta != tb else None}), 'built', sub_done
    return None, 'built', sub_done


def replay_case(rec):
    inp = rec['input']
    if inp.get('after_float_warm_up'):
        from .c08 import float_warm_up
        float_warm_up()
    return check(inp['plan'], inp['script'])[0]


def interesting(strings):
    for v in strings:
        if any(ch in v for ch in '<>&"\'\t\n') or any(ord(ch) > 0xFFFF for ch in v):
            return True
    return False


def shards(ctx):
    return [{'index': i} for i in range(16)]


CARRIERS = ['direction', 'direction-type', 'identification', 'work', 'encoding', 'measure', 'note', 'notations',
            'part-group', 'group-name-display', 'part-name-display', 'part-abbreviation-display', 'name-display',
            'technical', 'barline', 'attributes', 'miscellaneous', 'play', 'figure', 'figured-bass', 'print',
            'notehead-text', 'articulations', 'dynamics', 'percussion', 'defaults', 'appearance', 'grouping',
            'score-instrument', 'virtual-instrument', 'midi-instrument', 'listening', 'listen', 'frame', 'degree']


def run_shard(ctx, shard, acc):
    s = schema()
    names = sorted(n for n, t in s.element_type.items() if t not in c14.EXCLUDED_TYPES)
    carriers = [n for n in CARRIERS if n in names]

    warm = shard['index'] % 2 == 1
    if warm:
        # "changes no later result": half of the shards first serialise the whole-number FLOAT twin of every integer
        # the generators can draw; how an int is written afterwards must not depend on that
        from .c08 import float_warm_up
        float_warm_up()
        acc.count('shards-after-float-warm-up')

    def body(data):
        el = data.draw(st.sampled_from(carriers)) if data.draw(st.integers(0, 5)) > 0 \
            else data.draw(st.sampled_from(names))
        plan = c14.draw_plan(data, el, depth=data.draw(st.integers(2, 4)))
        # keep trees serialisable: all nodes checked and complete by construction; unchecked nodes allowed
        log = []
        inject(data, plan, log)
        script = []
        for _ in range(data.draw(st.integers(0, 5))):
            if data.draw(st.integers(0, 1)):
                script.append(['ser', data.draw(st.integers(-1, 3)), data.draw(st.integers(0, 1))])
            else:
                ms = c14.draw_mutations(data, plan)
                if ms:
                    script.append(['mut', ms[0]])
        f, status, sub = check(plan, script)
        acc.count(status)
        if status == 'built':
            acc.case({'plan': plan, 'script': script}, bool(log) and interesting(log) and sub, len(str(plan)))
            acc.count('injected-strings', len(log))
        if f:
            if warm:
                f['input']['after_float_warm_up'] = 1
            acc.fail(f)

    hyp_search(acc, body, mix(ctx.seed, 'C16', shard['index']), ctx.budget(700, 14000))
