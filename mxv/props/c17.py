"""C17 - write() is all-or-nothing and file I/O does not depend on the process locale."""
import json
import os
import subprocess
import sys
import tempfile
import xml.etree.ElementTree as ET

from hypothesis import strategies as st

from .. import driver
from ..driver import call
from ..run import hyp_search, mix, h

RULE = ('(a) fault points, ENUMERATED per score: a complete score-partwise built through the API (Hypothesis-drawn '
        'shape: parts x measures x notes, non-ASCII / non-BMP texts); every node of the tree in turn is made to fail '
        'its check (a child removed so that a required one is missing, or a required attribute removed) and, '
        'separately, an exception is injected at the k-th call of xml.etree.ElementTree.indent (the stdlib helper the '
        'serialiser calls once per element) for EVERY k, and the open() of the destination is refused by the operating system (OSError injected at builtins.open); each fault x prior destination state in {empty file, '
        'previous valid document, arbitrary bytes, no file}.  Oracle: write() raises and the destination bytes are exactly '
        'what they were.  (b) success, for every prior state in {absent, empty, shorter valid document, arbitrary '
        'bytes, a document longer than the new one, the same document with CR LF line ends}: on return the file holds the XML declaration + to_string() encoded UTF-8 and '
        'xml.etree re-reads it.  (c) configurations: fresh interpreters with default text encoding ASCII '
        '(LC_ALL=C, PYTHONCOERCECLOCALE=0, -X utf8=0), UTF-8 (C.UTF-8), and emulated Latin-1 / cp1252 (launcher wraps '
        'builtins.open / io.open to apply that encoding whenever the caller passes none) import the package, build, '
        'write, parse and re-serialise documents with non-ASCII text, and parse the same documents stored with a BOM, as '
        'UTF-16, as declared ISO-8859-1 and with CRLF line ends: files must be byte-identical and '
        're-serialisations identical across all configurations.  Non-trivial: (a) the failing node is not the root '
        'and the prior content is non-empty; (b) non-ASCII text or a prior longer than the document; (c) the document contains non-ASCII text.')
ASSUMPTIONS = ['for a destination that did not exist, "untouched" means that it still does not exist after the failed write',
               'Latin-1 / cp1252 default encodings are emulated (no such OS locale is installed); the wrapper does '
               'what the interpreter does: supply the default when the caller passed no encoding']
LEVEL = 'fault_enumeration'
EXHAUSTIVE = False

TEXTS = ['Hello', 'Ünïcødé ♯ title', '𝄞 non-BMP', 'a < b & c', 'ß — „quotes“',
         # characters that str.splitlines() / universal-newline handling treat as line ends but XML keeps
         'line\u2028sep and para\u2029sep', 'next\x85line', 'two\nlines', 
         'trailing newline\n']


def build_score(spec):
    """spec = {'parts': p, 'measures': m, 'notes': n, 'title': str, 'words': str}"""
    X = driver.X
    sc = X.XMLScorePartwise(version='4.0')
    w = sc.add_child(X.XMLWork())
    w.add_child(X.XMLWorkTitle(spec['title']))
    pl = sc.add_child(X.XMLPartList())
    for i in range(spec['parts']):
        sp = pl.add_child(X.XMLScorePart(id='P%d' % (i + 1)))
        sp.add_child(X.XMLPartName(spec['words'] + str(i)))
    for i in range(spec['parts']):
        p = sc.add_child(X.XMLPart(id='P%d' % (i + 1)))
        for j in range(spec['measures']):
            m = p.add_child(X.XMLMeasure(number=str(j + 1)))
            if j == 0:
                a = m.add_child(X.XMLAttributes())
                a.add_child(X.XMLDivisions(1))
                d = m.add_child(X.XMLDirection())
                dt = d.add_child(X.XMLDirectionType())
                dt.add_child(X.XMLWords(spec['words'], font_family='Arial'))
            for k in range(spec['notes']):
                n = m.add_child(X.XMLNote())
                pt = n.add_child(X.XMLPitch())
                pt.add_child(X.XMLStep('CDEFGAB'[k % 7]))
                pt.add_child(X.XMLOctave(4))
                n.add_child(X.XMLDuration(1))
    return sc


def nodes_of(e, path=()):
    yield e, path
    for i, c in enumerate(e.get_children(True)):
        yield from nodes_of(c, path + (i,))


def node_at(e, path):
    for i in path:
        e = e.get_children(True)[i]
    return e


def break_node(sc, path, how):
    """make the node at path fail its own final check; returns True when a breakage was applied"""
    from ..oracle.schema import schema
    s = schema()
    n = node_at(sc, path)
    if how == 'child':
        t = s.element_type[n.name]
        if s.content_kind(t) != 'elements':
            return False
        dfa = s.dfa(t)
        kids = n.get_children(True)
        for c in kids:
            rest = tuple(k.name for k in kids if k is not c)
            if not dfa.accepts(rest):
                n.remove(c)
                return True
        return False
    req = driver.required_attrs(n.name)
    for k in req:
        if getattr(n, k) is not None:
            setattr(n, k, None)
            return True
    return False


PRIORS = {'empty': b'', 'valid': b'<?xml version="1.0" encoding="UTF-8"?>\n<score-partwise version="4.0"/>\n',
          'bytes': bytes(range(256)) * 3,
          # longer than any generated document: whatever write() does not replace would stay behind the new text
          'long': b'<?xml version="1.0" encoding="UTF-8"?>\n<score-partwise version="4.0"/>\n' + b'<!-- 0123456789 -->\n' * 20000,
          'absent': None}
SUCCESS_PRIORS = ('absent', 'empty', 'valid', 'bytes', 'long', 'crlf-twin')


def attempt_write(sc, prior, inject_at=None, prior_bytes=None):
    """returns (raised: Result, before bytes, after bytes)"""
    fd, p = tempfile.mkstemp(suffix='.xml', prefix='mxv_c17_')
    try:
        with os.fdopen(fd, 'wb') as f:
            f.write(prior_bytes if prior_bytes is not None else (PRIORS[prior] or b''))
        if prior_bytes is None and PRIORS[prior] is None:
            os.unlink(p)
        if inject_at is None:
            r = call(sc.write, p)
        elif inject_at == 'open':
            # the operating system refuses to open the destination (descriptor limit, permissions, ...): nothing
            # has been written, so nothing may have changed
            import builtins
            real_open = builtins.open

            def refusing(file, mode='r', *a, **k):
                if file == p and ('w' in mode or 'a' in mode or 'x' in mode or '+' in mode):
                    raise OSError(24, 'Too many open files (injected)', p)
                return real_open(file, mode, *a, **k)
            builtins.open = refusing
            try:
                r = call(sc.write, p)
            finally:
                builtins.open = real_open
        else:
            real = ET.indent
            count = [0]

            def faulty(*a, **k):
                count[0] += 1
                if count[0] == inject_at:
                    raise RuntimeError('injected fault at ET.indent call %d' % inject_at)
                return real(*a, **k)
            ET.indent = faulty
            try:
                r = call(sc.write, p)
            finally:
                ET.indent = real
        after = None
        if os.path.exists(p):
            with open(p, 'rb') as f:
                after = f.read()
    finally:
        if os.path.exists(p):
            os.unlink(p)
    return r, PRIORS[prior], after


def count_indent_calls(sc):
    real = ET.indent
    count = [0]

    def counting(*a, **k):
        count[0] += 1
        return real(*a, **k)
    ET.indent = counting
    try:
        call(sc.to_string)
    finally:
        ET.indent = real
    return count[0]


def F(kind, inp, observed, expected, site=None):
    return {'kind': kind, 'type': '#score-partwise', 'site': site, 'input': inp, 'observed': observed,
            'expected': expected}


def check_fault(spec, fault, prior):
    """fault = ['node', path, how] | ['inject', k]"""
    inp = {'mode': 'fault', 'spec': spec, 'fault': fault, 'prior': prior}
    sc = build_score(spec)
    if fault[0] == 'node':
        if not break_node(sc, tuple(fault[1]), fault[2]):
            return None, 'no-breakage'
        r, before, after = attempt_write(sc, prior)
    elif fault[0] == 'open':
        r, before, after = attempt_write(sc, prior, inject_at='open')
        if r.ok:
            return None, 'fault-not-reached'      # the library did not open the path through builtins.open
    else:
        r, before, after = attempt_write(sc, prior, inject_at=fault[1])
    if r.ok:
        if fault[0] == 'inject':
            return None, 'fault-not-reached'
        return F('write-succeeded-on-invalid-tree', inp, 'write returned', 'raises'), 'run'
    if before is None and after is not None:
        return F('failed-write-created-the-destination', inp,
                 {'exception': r.etype, 'created_bytes': len(after)}, 'no file: nothing was written', r.site), 'run'
    if after != before:
        return F('destination-changed-by-failed-write', inp,
                 {'exception': r.etype, 'before_len': len(before or b''),
                  'after_len': len(after) if after is not None else 'FILE DELETED', 'after_head': repr((after or b'')[:60])},
                 'destination bytes untouched', r.site), 'run'
    return None, 'run'


def check_success(spec, prior='valid'):
    inp = {'mode': 'success', 'spec': spec, 'prior': prior}
    sc = build_score(spec)
    rs = call(sc.to_string)
    if not rs.ok:
        return None
    if prior == 'crlf-twin':
        # the destination already holds this very document, saved with CR LF line ends (another tool's copy)
        try:
            twin = ('<?xml version="1.0" encoding="UTF-8" standalone="no"?>\n' + rs.value).replace('\n', '\r\n').encode('utf-8')
        except UnicodeEncodeError:
            return None
        r, before, after = attempt_write(sc, 'valid', prior_bytes=twin)
    else:
        r, before, after = attempt_write(sc, prior)
    try:
        want = ('<?xml version="1.0" encoding="UTF-8" standalone="no"?>\n' + rs.value).encode('utf-8')
    except UnicodeEncodeError:
        # (a lone surrogate, as os.fsdecode produces for undecodable file names): there is no UTF-8 form of this
        # document, so write() cannot return with "exactly to_string() in UTF-8" on disk
        if r.ok:
            return F('write-returned-for-unencodable-document', inp, {'head': repr((after or b'')[:80])},
                     'raises: the text has no UTF-8 encoding')
        return None
    if not r.ok:
        return F('write-raised-on-valid-tree', inp, '%s: %s' % (r.etype, r.msg[:160]), 'returns', r.site)
    if after != want:
        return F('file-content-differs-from-to-string', inp,
                 {'len': [len(after or b''), len(want)], 'head': repr((after or b'')[:80]),
                  'tail': repr((after or b'')[-40:])}, 'declaration + to_string() in UTF-8')
    try:
        ET.fromstring(after)
    except ET.ParseError as ex:
        return F('written-file-not-well-formed', inp, str(ex), 'parsable')
    return None


# -- (c) configurations ---------------------------------------------------------------------------------

CHILD = r'''
import sys, os, json, hashlib, io, builtins
emul = os.environ.get('MXV_EMULATE_ENCODING')
if emul:
    _open = builtins.open
    def _wrapped(file, mode='r', buffering=-1, encoding=None, *a, **k):
        if 'b' not in mode and encoding is None:
            encoding = emul
        return _open(file, mode, buffering, encoding, *a, **k)
    builtins.open = _wrapped
    io.open = _wrapped
import warnings; warnings.filterwarnings('ignore')
out = {'default_encoding': emul or __import__('locale').getpreferredencoding(False)}
try:
    from mxv.props.c17 import build_score
    from musicxml.parser.parser import parse_musicxml
    specs = json.loads(sys.argv[1]); d = sys.argv[2]
    res = []
    for i, spec in enumerate(specs):
        sc = build_score(spec)
        p = os.path.join(d, 'doc%d.xml' % i)
        sc.write(p)
        b = open(p, 'rb').read()
        back = parse_musicxml(p).to_string()
        row = [hashlib.sha256(b).hexdigest(), hashlib.sha256(back.encode('utf-8')).hexdigest(), len(b)]
        # the same document stored in other encodings that the file itself declares (BOM / XML declaration): reading
        # is governed by the file, never by the process; all must give the tree read from the UTF-8 file
        text = b.decode('utf-8')
        body = text.split('?>', 1)[1]
        variants = {'utf-8-bom': b'\xef\xbb\xbf' + b,
                    'utf-16': ('<?xml version="1.0" encoding="UTF-16"?>' + body).encode('utf-16'),
                    'crlf': text.replace('\n', '\r\n').encode('utf-8')}
        # characters outside Latin-1 become character references, the others stay 8-bit bytes
        variants['iso-8859-1'] = ('<?xml version="1.0" encoding="ISO-8859-1"?>' + body).encode('iso-8859-1', 'xmlcharrefreplace')
        for vn in sorted(variants):
            q = os.path.join(d, 'doc%d_%s.xml' % (i, vn))
            with open(q, 'wb') as f:
                f.write(variants[vn])
            try:
                vb = parse_musicxml(q).to_string()
                row.append(vn + ':' + ('same' if vb == back else 'DIFFERENT ' + hashlib.sha256(vb.encode('utf-8')).hexdigest()[:12]))
            except Exception as ex:
                row.append(vn + ':' + type(ex).__name__)
        res.append(row)
    out['results'] = res
except BaseException as ex:
    import traceback
    out['error'] = type(ex).__name__ + ': ' + str(ex)[:300]
    out['where'] = traceback.format_exc()[-600:]
sys.stdout.buffer.write(json.dumps(out).encode('ascii'))
'''

CONFIGS = {
    'utf8': {'env': {'LC_ALL': 'C.UTF-8', 'LANG': 'C.UTF-8'}, 'flags': []},
    'ascii': {'env': {'LC_ALL': 'C', 'LANG': 'C', 'PYTHONCOERCECLOCALE': '0'}, 'flags': ['-X', 'utf8=0']},
    'latin-1': {'env': {'LC_ALL': 'C.UTF-8', 'MXV_EMULATE_ENCODING': 'latin-1'}, 'flags': []},
    'cp1252': {'env': {'LC_ALL': 'C.UTF-8', 'MXV_EMULATE_ENCODING': 'cp1252'}, 'flags': []},
}


def run_config(name, specs):
    cfg = CONFIGS[name]
    env = {k: v for k, v in os.environ.items() if k not in ('LC_ALL', 'LANG', 'LC_CTYPE', 'PYTHONUTF8',
                                                            'PYTHONIOENCODING', 'PYTHONCOERCECLOCALE')}
    env.update(cfg['env'])
    d = tempfile.mkdtemp(prefix='mxv_c17c_')
    try:
        out = subprocess.run([sys.executable, '-B', '-W', 'ignore'] + cfg['flags'] +
                             ['-c', CHILD, json.dumps(specs, ensure_ascii=True), d],
                             env=env, capture_output=True, timeout=600)
    finally:
        for fn in os.listdir(d):
            os.unlink(os.path.join(d, fn))
        os.rmdir(d)
    if out.returncode != 0 or not out.stdout:
        return {'error': 'exit %d: %s' % (out.returncode, out.stderr.decode('ascii', 'replace')[-400:])}
    return json.loads(out.stdout.decode('ascii'))


def check_configs(specs):
    inp = {'mode': 'configs', 'specs': specs}
    res = {name: run_config(name, specs) for name in CONFIGS}
    ref = res['utf8']
    if 'error' in ref:
        raise RuntimeError('reference configuration failed: %s' % ref)
    for name, r in res.items():
        if 'error' in r:
            return F('fails-under-default-encoding', dict(inp, config=name), {'config': name, 'error': r['error'],
                                                                            'where': r.get('where', '')[-300:]},
                     'behaves as under UTF-8')
        for i, row in enumerate(r['results']):
            odd = [x for x in row[3:] if not x.endswith(':same')]
            if odd:
                return F('declared-encoding-not-honoured', dict(inp, config=name),
                         {'config': name, 'document': i, 'variants': odd},
                         'a file in a declared encoding (BOM, UTF-16, ISO-8859-1, CRLF line ends) reads like its UTF-8 twin')
        if r['results'] != ref['results']:
            bad = [i for i, (a, b) in enumerate(zip(r['results'], ref['results'])) if a != b]
            return F('output-depends-on-default-encoding', dict(inp, config=name),
                     {'config': name, 'documents': bad, 'got': r['results'][bad[0]], 'utf8': ref['results'][bad[0]]},
                     'byte-identical files and identical re-serialisations')
    return None


def replay_case(rec):
    inp = rec['input']
    if inp['mode'] == 'fault':
        return check_fault(inp['spec'], inp['fault'], inp['prior'])[0]
    if inp['mode'] == 'success':
        return check_success(inp['spec'], inp.get('prior', 'valid'))
    return check_configs(inp['specs'])


def shards(ctx):
    jobs = [{'mode': 'faults', 'index': i} for i in range(12)]
    jobs += [{'mode': 'configs', 'index': i} for i in range(2 if ctx.quick else 4)]
    return jobs


def draw_spec(data, small=False):
    return {'parts': data.draw(st.integers(1, 2)), 'measures': data.draw(st.integers(1, 2 if small else 3)),
            'notes': data.draw(st.integers(0, 2 if small else 4)), 'title': data.draw(st.sampled_from(TEXTS)),
            'words': data.draw(st.sampled_from(TEXTS))}


def run_shard(ctx, shard, acc):
    if shard['mode'] == 'faults':
        # fixed: a document whose text has no UTF-8 form at all (write() must not return), for every prior state
        spec0 = {'parts': 1, 'measures': 1, 'notes': 1, 'title': 'caf\udce9.mid', 'words': 'Hello'}
        for prior in SUCCESS_PRIORS:
            f = check_success(spec0, prior)
            acc.case({'mode': 'success', 'spec': spec0, 'prior': prior}, True, 0)
            acc.count('unencodable-document')
            if f:
                acc.fail(f, raise_=False)

        def body(data):
            spec = draw_spec(data, small=ctx.quick)
            sc = build_score(spec)
            for prior in SUCCESS_PRIORS:
                f = check_success(spec, prior)
                acc.case({'mode': 'success', 'spec': spec, 'prior': prior},
                         any(ord(c) > 127 for c in spec['title'] + spec['words']) or prior in ('bytes', 'long', 'crlf-twin'), 0)
                acc.count('success-writes')
                acc.count('success-prior-' + prior)
                if f:
                    acc.fail(f)
            paths = [list(p) for _, p in nodes_of(sc)]
            n_indent = count_indent_calls(sc)
            faults = [['node', p, how] for p in paths for how in ('child', 'attr')] + \
                     [['inject', k] for k in range(1, n_indent + 1)] + [['open']]
            acc.extras['fault_points'] = acc.extras.get('fault_points', 0) + len(faults)
            for fault in faults:
                for prior in ('empty', 'valid', 'bytes', 'absent'):
                    f, status = check_fault(spec, fault, prior)
                    if status != 'run':
                        acc.count(status)
                        break
                    nt = prior != 'empty' and (fault[0] == 'inject' and fault[1] > 1 or fault[0] == 'node' and fault[1] or fault[0] == 'open')
                    acc.case({'mode': 'fault', 'spec': spec, 'fault': fault, 'prior': prior}, bool(nt), 0)
                    acc.count('fault-' + fault[0])
                    if f:
                        acc.fail(f)
        hyp_search(acc, body, mix(ctx.seed, 'C17f', shard['index']), ctx.budget(2, 30), shrink=False)
        return

    def body(data):
        specs = [draw_spec(data, small=True) for _ in range(5 if ctx.quick else 10)]
        specs[0]['title'] = TEXTS[1]
        specs[1]['words'] = TEXTS[2]
        acc.case({'mode': 'configs', 'specs': specs}, True, len(specs))
        acc.count('configurations-compared', len(CONFIGS))
        f = check_configs(specs)
        if f:
            acc.fail(f)
    hyp_search(acc, body, mix(ctx.seed, 'C17c', shard['index']), ctx.budget(1, 4), shrink=False)
