"""C18 - xsd_check=False switches off structural checking and nothing else."""
import itertools
import xml.etree.ElementTree as ET

from hypothesis import strategies as st

from .. import driver, gen
from ..driver import call, cls_for, fresh, py_name, stub
from ..history import Run, draw_op
from ..oracle import lexical
from ..oracle.schema import schema
from ..run import hyp_search, mix

RULE = ('(a) unchecked parents of ANY of the 441 classes with Hypothesis-drawn histories (0-12 ops quick, 0-30 '
        'thorough) whose children are drawn from all 441 classes: add, forward add, remove, replace (any name), '
        'xml_* assignment of schema children, to_string, deepcopy (the copy is unchecked and serialises alike): no call may raise; a checked element refuses replace_child by a differently named child whether that child is checked or not; both child views equal the insertion '
        'order model, to_string lists the children in insertion order; (b) byte identity: for Hypothesis-drawn and '
        'enumerated (length<=3) schema-valid words that the checked twin accepts and keeps in order, the unchecked '
        'twin\'s to_string is byte-identical; (c) mixed trees: a checked element nested under 1-3 unchecked ancestors '
        'runs a drawn history in lock-step with a free-standing checked twin and must show identical observations '
        '(rejections, missing-children verdicts); a checked root holding a valid word in which one child is an '
        'unchecked element stuffed with arbitrary children must serialise, with that child\'s content in insertion '
        'order; (d) the setting is per element: for every type, two elements born unchecked and later switched to '
        'checking: children added to the first are not visible in the second, which accepts, rejects and serialises '
        'exactly like an element checked from the start; for every (type, text-valued child) the child created by '
        'xml_x = <value> under an unchecked parent has the same xsd_check, refuses children and serialises like the '
        'one created under a checked parent; for every checked element (one or two children by add_child, all '
        'combinations for alphabets <=12) whose own to_string answers differently with intelligent_choice on and '
        'off, a checked measure holding it below an unchecked note answers exactly as the element alone; (e) nothing else is switched off: for all 441 classes, '
        'every sample value (valid and invalid, from the lexical oracle) and every attribute x sample value gets the '
        'same verdict (accepted / same exception type) from an unchecked as from a checked element, undeclared dot '
        'names are refused alike.  Non-trivial = a child sequence the checked twin rejects, or a mixed tree of depth>=3; distinct by '
        'case.')
ASSUMPTIONS = ['children are unchecked stubs unless stated; checked descendants of an unchecked node inside a checked '
               'tree are not asserted either way']
EXHAUSTIVE = False


def F(kind, t, inp, observed, site=None):
    return {'kind': kind, 'type': t, 'site': site, 'input': inp, 'observed': observed,
            'expected': 'no structural check on the unchecked element; per-element setting'}


def all_names():
    return sorted(schema().element_type)


# -- (a) unchecked parent, arbitrary children --------------------------------------------------------

def run_unchecked(el, ops):
    """ops: ['add', name] | ['add_fwd', name, k] | ['remove', i] | ['replace', i, name] | ['dot_inst', name] |
    ['dot_none', name] | ['to_string', ic]"""
    s = schema()
    t = s.element_type[el]
    inp = {'mode': 'unchecked', 'element': el, 'ops': ops}
    r = call(fresh, el, False)
    if not r.ok:
        return F('unchecked-construction-failed', t, inp, '%s: %s' % (r.etype, r.msg[:100]), r.site), False
    e = r.value
    model = []
    rejected_by_checked = False
    for i, op in enumerate(ops):
        k = op[0]
        if k in ('add', 'add_fwd'):
            # op[-1] == 'checked': a CHECKED, usually incomplete, child - the unchecked parent must neither refuse
            # it nor be stopped by it when it is serialised
            c = fresh(op[1], True, False) if op[-1] == 'checked' else stub(op[1])
            r = call(e.add_child, c) if k == 'add' else call(e.add_child, c, op[2])
            if r.ok:
                model.append(c)
        elif k == 'remove':
            if not model:
                continue
            c = model[op[1] % len(model)]
            r = call(e.remove, c)
            if r.ok:
                model.remove(c)
        elif k == 'replace':
            if not model:
                continue
            j = op[1] % len(model)
            c = stub(op[2])
            r = call(e.replace_child, model[j], c)
            if r.ok:
                model[j] = c
        elif k == 'dot_inst':
            c = stub(op[1])
            found = next((m for m in model if m.name == op[1]), None)
            r = call(setattr, e, 'xml_' + py_name(op[1]), c)
            if r.ok:
                if found is not None:
                    model[model.index(found)] = c
                else:
                    model.append(c)
        elif k == 'dot_none':
            found = next((m for m in model if m.name == op[1]), None)
            r = call(setattr, e, 'xml_' + py_name(op[1]), None)
            if r.ok and found is not None:
                model.remove(found)
        elif k == 'deepcopy':
            # copying is no structural check either: the copy of an unchecked element takes whatever the original holds
            import copy as _copy
            r = call(_copy.deepcopy, e)
            if r.ok:
                ra, rb = call(e.to_string), call(r.value.to_string)
                if ra.verdict() != rb.verdict() or bool(r.value.xsd_check):
                    return F('unchecked-copy-differs', t, inp, {'step': i, 'original': ra.verdict()[0],
                                                                'copy': rb.verdict()[0],
                                                                'copy.xsd_check': bool(r.value.xsd_check)}), False
        elif k == 'to_string':
            r = call(e.to_string, intelligent_choice=bool(op[1]))
            if r.ok:
                try:
                    tags = [c.tag for c in ET.fromstring(r.value)]
                except ET.ParseError as ex:
                    return F('output-not-well-formed', t, inp, str(ex)), False
                if tags != [m.name for m in model]:
                    return F('unchecked-output-not-in-insertion-order', t, inp,
                             {'step': i, 'got': tags, 'want': [m.name for m in model]}), False
        if not r.ok:
            return F('unchecked-element-raised', t, inp, {'step': i, 'op': op, 'exc': r.etype, 'msg': r.msg[:120]},
                     r.site), False
        for ordered in (True, False):
            rc = call(e.get_children, ordered)
            if not rc.ok or len(rc.value) != len(model) or any(x is not y for x, y in zip(rc.value, model)):
                return F('unchecked-children-not-in-insertion-order', t, inp,
                         {'step': i, 'ordered': ordered, 'got': [c.name for c in rc.value] if rc.ok else rc.etype,
                          'want': [m.name for m in model]}), False
    # would the checked twin have rejected this sequence?  (classification only)
    dfa = s.dfa(t) if s.content_kind(t) == 'elements' else None
    final = tuple(m.name for m in model)
    rejected_by_checked = dfa is None and bool(final) or (dfa is not None and not dfa.accepts(final))
    return None, rejected_by_checked


# -- (b) byte identity -----------------------------------------------------------------------------

def byte_identity(el, word):
    s = schema()
    t = s.element_type[el]
    inp = {'mode': 'identity', 'element': el, 'word': list(word)}
    a = call(fresh, el, True)
    b = call(fresh, el, False)
    if not a.ok or not b.ok:
        return None, 'unbuildable'
    for n in word:
        r = call(a.value.add_child, stub(n))
        if not r.ok:
            return None, 'checked-twin-rejects'      # C02's subject
        r = call(b.value.add_child, stub(n))
        if not r.ok:
            return F('unchecked-element-raised', t, inp, r.etype, r.site), 'compared'
    ra = call(a.value.to_string)
    if not ra.ok or [c.tag for c in ET.fromstring(ra.value)] != list(word):
        return None, 'checked-twin-rejects'
    rb = call(b.value.to_string)
    if not rb.ok:
        return F('unchecked-element-raised', t, inp, rb.etype, rb.site), 'compared'
    if ra.value != rb.value:
        return F('unchecked-output-differs-from-checked', t, inp, {'checked': ra.value[:300],
                                                                   'unchecked': rb.value[:300]}), 'compared'
    return None, 'compared'


def per_element(el, word):
    """the setting is per element: two elements born unchecked and switched to checking later do not share what is
    added to one of them; the second one behaves like an element that was checked from the start"""
    s = schema()
    t = s.element_type[el]
    inp = {'mode': 'per-element', 'element': el, 'word': list(word)}
    ra, rb, rc = call(fresh, el, False), call(fresh, el, False), call(fresh, el, True)
    if not (ra.ok and rb.ok and rc.ok):
        return None, 'unbuildable'
    a, b, c = ra.value, rb.value, rc.value
    for x in (a, b):
        if not call(setattr, x, 'xsd_check', True).ok:
            return None, 'unbuildable'
    for n in word:
        call(a.add_child, stub(n))
    for view in (True, False):
        r = call(b.get_children, view)
        if not r.ok or r.value:
            return F('setting-not-per-element', t, inp,
                     {'second element already holds': [k.name for k in r.value] if r.ok else r.etype}, r.site), 'compared'
    vb = [call(b.add_child, stub(n)).verdict() for n in word]
    vc = [call(c.add_child, stub(n)).verdict() for n in word]
    sb, sc = call(b.to_string), call(c.to_string)
    if vb != vc or sb.verdict() != sc.verdict() or (sb.ok and sb.value != sc.value):
        return F('setting-not-per-element', t, inp, {'late-checked': [vb, sb.verdict()],
                                                     'checked-from-start': [vc, sc.verdict()]}), 'compared'
    return None, 'compared'


def nothing_else(el):
    """value and attribute validation are NOT switched off: every sample value / attribute value gets the same
    verdict (accepted, or the same exception type) from an unchecked element as from a checked one"""
    s = schema()
    t = s.element_type[el]
    cls = cls_for(el)
    n = 0
    tt = s.text_type(t)
    samples = []
    if tt is not None:
        for txt in lexical.valid_texts(tt)[:12]:
            ok, pv = lexical.python_value_for(tt, txt)
            samples.append(pv if ok else txt)
        samples += list((lexical.invalid_texts(tt) or [])[:12])
        samples += [None, 1.5, -3, True, 'zz9']
    else:
        samples = [None, '', 'x', 1]
    for v in samples:
        va, vb = call(cls, v, xsd_check=True).verdict(), call(cls, v, xsd_check=False).verdict()
        n += 1
        if va[0] != vb[0]:
            return F('unchecked-element-validates-differently', t,
                     {'mode': 'nothing-else', 'element': el, 'value': repr(v)}, {'checked': va, 'unchecked': vb}), n
    ra, rb = call(fresh, el, True), call(fresh, el, False)
    if ra.ok and rb.ok:
        for a in s.attributes_of(t):
            if a['qname'].startswith('xlink:') or a['qname'] in ('xml:space', 'name'):
                continue
            dot = py_name(a['qname'].split(':')[-1])
            vals = []
            for txt in lexical.valid_texts(a['type'])[:4]:
                ok, pv = lexical.python_value_for(a['type'], txt)
                vals.append(pv if ok else txt)
            vals += list((lexical.invalid_texts(a['type']) or [])[:4])
            for v in vals + [2.5, 'zz9']:
                va, vb = call(setattr, ra.value, dot, v).verdict(), call(setattr, rb.value, dot, v).verdict()
                n += 1
                if va[0] != vb[0]:
                    return F('unchecked-element-validates-differently', t,
                             {'mode': 'nothing-else', 'element': el, 'attribute': a['qname'], 'value': repr(v)},
                             {'checked': va, 'unchecked': vb}), n
        for nm in ('bogus_attr_zz', 'xml_bogus_child_zz'):
            va, vb = call(setattr, ra.value, nm, 'x').verdict(), call(setattr, rb.value, nm, 'x').verdict()
            if va[0] != vb[0]:
                return F('unchecked-element-validates-differently', t,
                         {'mode': 'nothing-else', 'element': el, 'name': nm}, {'checked': va, 'unchecked': vb}), n
    return None, n


def checked_replace(el):
    """a CHECKED element validates what replace_child gives it whatever the new child's own flag is: an unchecked
    child of another name is refused like a checked one"""
    s = schema()
    t = s.element_type[el]
    al = s.alphabet(t)
    for a in al[:4]:
        for b in [x for x in al if x != a][:4]:
            verdicts = []
            for child_checked in (True, False):
                r = call(fresh, el, True)
                if not r.ok:
                    return None
                k = stub(a)
                if not call(r.value.add_child, k).ok:
                    break
                rn = call(fresh, b, child_checked)
                if not rn.ok:
                    break
                verdicts.append(call(r.value.replace_child, k, rn.value).verdict()[0])
            if len(verdicts) == 2 and verdicts[0] != verdicts[1]:
                return F('setting-not-per-element', t, {'mode': 'checked-replace', 'element': el, 'old': a, 'new': b},
                         {'new child checked': verdicts[0], 'new child unchecked': verdicts[1]})
    return None


def shortcut_child(el, child):
    """a child created by the xml_x = <plain value> shortcut under an UNCHECKED parent is an element of its own: it
    checks itself exactly like the child the same shortcut creates under a checked parent"""
    s = schema()
    t = s.element_type[el]
    v = driver.stub_value(child)
    if v is None:
        return None, 'no-value'
    inp = {'mode': 'shortcut-child', 'element': el, 'child': child}
    dot = 'xml_' + py_name(child)
    obs = []
    for checked in (True, False):
        rp = call(fresh, el, checked)
        if not rp.ok:
            return None, 'unbuildable'
        if not call(setattr, rp.value, dot, v).ok:
            return None, 'shortcut-refused'       # (a structural refusal by a checked parent is not this layer's subject)
        c = call(getattr, rp.value, dot).value
        if c is None:
            return None, 'shortcut-refused'
        obs.append({'xsd_check': bool(c.xsd_check),
                    'takes-a-child': call(c.add_child, stub('dot')).verdict()[0],
                    'own-output': call(c.to_string).verdict()[0]})
    if obs[0] != obs[1]:
        return F('setting-not-per-element', t, inp, {'under checked parent': obs[0], 'under unchecked parent': obs[1]}), \
            'compared'
    return None, 'compared'


# -- (c) mixed trees -------------------------------------------------------------------------------

def nested_checked(el, wrappers, ops):
    """checked element of class el nested under unchecked ancestors must behave like a free-standing twin"""
    s = schema()
    t = s.element_type[el]
    inp = {'mode': 'nested-checked', 'element': el, 'wrappers': wrappers, 'ops': ops}
    A = Run(el)
    B = Run(el)
    if A.e is None:
        return None
    outer = A.e
    for w in wrappers:
        r = call(fresh, w, False)
        if not r.ok:
            return None
        r2 = call(r.value.add_child, outer)
        if not r2.ok:
            return F('unchecked-element-raised', t, inp, r2.etype, r2.site)
        outer = r.value
    for i, op in enumerate(ops):
        A.apply(op)
        B.apply(op)
        oa, ob = A.obs(), B.obs()
        for o in (oa, ob):
            if o['string'][0] == 'ok':      # indentation depends on the nesting level: compare it aside
                from .c16 import strip_ws
                o['string'] = ['ok', ET.tostring(strip_ws(ET.fromstring(o['string'][1])), encoding='unicode')]
        if oa != ob:
            fields = [k for k in oa if oa[k] != ob[k]]
            return F('nested-checked-element-behaves-differently', t, inp,
                     {'step': i, 'fields': fields, 'nested': {k: oa[k] for k in fields},
                      'free': {k: ob[k] for k in fields}})
    return None


def build_by_adds(el, names):
    r = call(fresh, el, True)
    if not r.ok:
        return None
    for n in names:
        call(r.value.add_child, stub(n))
    return r.value


def ic_passes_through(el, names):
    """a checked measure holding an UNCHECKED note that holds a checked element G: whatever G answers to
    to_string(intelligent_choice=ic) on its own (ok / exception type) is what the measure answers - the unchecked
    node in between switches off nothing but its own structural check.  Only run for G where ic makes a difference."""
    s = schema()
    t = s.element_type[el]
    inp = {'mode': 'ic-through-unchecked', 'element': el, 'names': list(names)}
    alone = {}
    for ic in (False, True):
        g = build_by_adds(el, names)
        if g is None:
            return None, 'unbuildable'
        alone[ic] = call(g.to_string, intelligent_choice=ic).verdict()[0]
    if alone[False] == alone[True]:
        return None, 'ic-insensitive'
    for ic in (False, True):
        g = build_by_adds(el, names)
        root, mid = fresh('measure', True), fresh('note', False)
        mid.add_child(g)
        root.add_child(mid)
        got = call(root.to_string, intelligent_choice=ic).verdict()[0]
        if got != alone[ic]:
            return F('unchecked-node-changes-descendant-check', t, dict(inp, intelligent_choice=ic),
                     {'measure > unchecked note > element': got, 'element alone': alone[ic]}), 'compared'
    return None, 'compared'


def exempt_child(el, word, pos, junk):
    """checked root el holding valid word; child at pos is an UNCHECKED element stuffed with junk children"""
    s = schema()
    t = s.element_type[el]
    inp = {'mode': 'exempt-child', 'element': el, 'word': list(word), 'pos': pos, 'junk': junk}
    a = call(fresh, el, True)
    if not a.ok:
        return None, 'unbuildable'
    x = None
    for i, n in enumerate(word):
        c = stub(n)
        if i == pos:
            x = c
            for j in junk:
                r = call(c.add_child, stub(j))
                if not r.ok:
                    return F('unchecked-element-raised', t, inp, r.etype, r.site), 'compared'
        r = call(a.value.add_child, c)
        if not r.ok:
            return None, 'checked-twin-rejects'
    ra = call(a.value.to_string)
    if not ra.ok:
        # would it have serialised without the junk?  if so the junk blocked it
        b = call(fresh, el, True)
        for n in word:
            call(b.value.add_child, stub(n))
        rb = call(b.value.to_string)
        if rb.ok:
            return F('unchecked-child-blocks-checked-parent', t, inp, '%s: %s' % (ra.etype, ra.msg[:120]),
                     ra.site), 'compared'
        return None, 'checked-twin-rejects'
    node = ET.fromstring(ra.value)
    if pos < len(node):
        got = [c.tag for c in node[pos]]
        if [c.tag for c in node] == list(word) and got != list(junk):
            return F('unchecked-output-not-in-insertion-order', t, inp, {'got': got, 'want': junk}), 'compared'
    return None, 'compared'


def replay_case(rec):
    inp = rec['input']
    m = inp['mode']
    if m == 'unchecked':
        return run_unchecked(inp['element'], inp['ops'])[0]
    if m == 'identity':
        return byte_identity(inp['element'], tuple(inp['word']))[0]
    if m == 'ic-through-unchecked':
        return ic_passes_through(inp['element'], inp['names'])[0]
    if m == 'checked-replace':
        return checked_replace(inp['element'])
    if m == 'shortcut-child':
        return shortcut_child(inp['element'], inp['child'])[0]
    if m == 'nothing-else':
        return nothing_else(inp['element'])[0]
    if m == 'per-element':
        return per_element(inp['element'], tuple(inp['word']))[0]
    if m == 'nested-checked':
        return nested_checked(inp['element'], inp['wrappers'], inp['ops'])
    return exempt_child(inp['element'], tuple(inp['word']), inp['pos'], inp['junk'])[0]


def shards(ctx):
    te = gen.types_and_elements()
    jobs = [{'mode': 'identity-exh', 'types': part, 'first': i == 0} for i, part in enumerate(gen.chunk(te, 8))]
    for i in range(8):
        jobs.append({'mode': 'unchecked', 'index': i})
    for i in range(4):
        jobs.append({'mode': 'mixed', 'index': i})
    for i in range(4):
        jobs.append({'mode': 'identity', 'index': i})
    return jobs


def run_shard(ctx, shard, acc):
    s = schema()
    names = all_names()
    te = gen.types_and_elements(all_elements=not ctx.quick)
    if shard['mode'] == 'identity-exh':
        if shard.get('first'):
            for el in names:
                f, n = nothing_else(el)
                acc.case({'mode': 'nothing-else', 'element': el}, True, n)
                acc.count('nothing-else-comparisons', n)
                if f:
                    acc.fail(f, raise_=False)
        for t, els in shard['types']:
            al = s.alphabet(t)
            for names in itertools.chain(((a,) for a in al), itertools.product(al, repeat=2) if len(al) <= 12 else ()):
                f, status = ic_passes_through(els[0], names)
                acc.count('ic-through-' + status)
                if status == 'compared':
                    acc.case({'mode': 'ic-through-unchecked', 'element': els[0], 'names': list(names)}, True, 3)
                if f:
                    acc.fail(f, raise_=False)
            f = checked_replace(els[0])
            acc.count('checked-replace')
            if f:
                acc.fail(f, raise_=False)
            for a in s.alphabet(t):
                f, status = shortcut_child(els[0], a)
                acc.count('shortcut-child-' + status)
                if status == 'compared':
                    acc.case({'mode': 'shortcut-child', 'element': els[0], 'child': a}, True, 1)
                if f:
                    acc.fail(f, raise_=False)
            for w in s.dfa(t).enumerate(3, cap=6 if ctx.quick else 60):
                if not w:
                    continue
                f, status = per_element(els[0], w)
                acc.count('per-element-' + status)
                if status == 'compared':
                    acc.case({'mode': 'per-element', 'element': els[0], 'word': list(w)}, True, len(w))
                if f:
                    acc.fail(f, raise_=False)
            for w in s.dfa(t).enumerate(3, cap=400 if ctx.quick else 4000):
                f, status = byte_identity(els[0], w)
                acc.count('identity-' + status)
                if status == 'compared':
                    acc.case({'mode': 'identity', 'element': els[0], 'word': list(w)}, len(w) >= 1, len(w))
                if f:
                    acc.fail(f, raise_=False)
        return
    if shard['mode'] == 'identity':
        def body(data):
            t, els = data.draw(st.sampled_from(te))
            el = data.draw(st.sampled_from(els))
            w = gen.draw_word(data, s.dfa(t), max_len=data.draw(st.sampled_from([5, 12])), stop_bias=4)
            f, status = byte_identity(el, w)
            acc.count('identity-' + status)
            if status == 'compared':
                acc.case({'mode': 'identity', 'element': el, 'word': list(w)}, len(w) >= 1, len(w))
            if f:
                acc.fail(f)
        hyp_search(acc, body, mix(ctx.seed, 'C18i', shard['index']), ctx.budget(600, 12000))
        return
    if shard['mode'] == 'unchecked':
        maxops = 12 if ctx.quick else 30

        def body(data):
            el = data.draw(st.sampled_from(names))
            t = s.element_type[el]
            own = s.alphabet(t) if s.content_kind(t) == 'elements' else []
            ops = []
            n_held = 0
            for _ in range(data.draw(st.integers(0, maxops))):
                k = data.draw(st.sampled_from(['add', 'add', 'add', 'add_fwd', 'remove', 'replace', 'dot_inst',
                                               'dot_none', 'to_string', 'deepcopy']))
                nm = data.draw(st.sampled_from(own)) if (own and data.draw(st.integers(0, 1))) \
                    else data.draw(st.sampled_from(names))
                if k == 'add':
                    ops.append(['add', nm, 'checked'] if data.draw(st.integers(0, 3)) == 0 else ['add', nm])
                elif k == 'add_fwd':
                    ops.append(['add_fwd', nm, data.draw(st.integers(0, 3))])
                elif k == 'remove':
                    ops.append(['remove', data.draw(st.integers(0, 8))])
                elif k == 'replace':
                    ops.append(['replace', data.draw(st.integers(0, 8)), nm])
                elif k in ('dot_inst', 'dot_none'):
                    if own:
                        ops.append([k, data.draw(st.sampled_from(own))])
                elif k == 'deepcopy':
                    ops.append(['deepcopy'])
                else:
                    ops.append(['to_string', data.draw(st.integers(0, 1))])
            ops.append(['to_string', 1])
            ops.append(['to_string', 0])
            ops.append(['deepcopy'])
            f, rejected = run_unchecked(el, ops)
            acc.case({'mode': 'unchecked', 'element': el, 'ops': ops}, rejected, len(ops))
            acc.count('checked-twin-would-reject' if rejected else 'checked-twin-would-accept')
            if f:
                acc.fail(f)
        hyp_search(acc, body, mix(ctx.seed, 'C18u', shard['index']), ctx.budget(900, 18000))
        return

    def body(data):
        t, els = data.draw(st.sampled_from(te))
        el = data.draw(st.sampled_from(els))
        if data.draw(st.integers(0, 1)):
            wrappers = [data.draw(st.sampled_from(names)) for _ in range(data.draw(st.integers(1, 3)))]
            run = Run(el)
            if run.e is None:
                return
            for _ in range(data.draw(st.integers(1, 10 if ctx.quick else 20))):
                run.apply(draw_op(data, run, {'set_attr': 1}))
            f = nested_checked(el, wrappers, run.ops)
            acc.case({'mode': 'nested-checked', 'element': el, 'wrappers': wrappers, 'ops': run.ops},
                     len(wrappers) >= 2, len(run.ops))
            acc.count('nested-checked')
        else:
            w = gen.draw_word(data, s.dfa(t), max_len=5, stop_bias=1)
            if not w:
                return
            pos = data.draw(st.integers(0, len(w) - 1))
            junk = [data.draw(st.sampled_from(names)) for _ in range(data.draw(st.integers(1, 5)))]
            f, status = exempt_child(el, w, pos, junk)
            acc.count('exempt-' + status)
            if status == 'compared':
                acc.case({'mode': 'exempt-child', 'element': el, 'word': list(w), 'pos': pos, 'junk': junk}, True,
                         len(w))
        if f:
            acc.fail(f)
    hyp_search(acc, body, mix(ctx.seed, 'C18m', shard['index']), ctx.budget(600, 12000))
