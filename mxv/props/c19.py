"""C19 - misuse is reported with the documented exception types, silently otherwise."""
from hypothesis import strategies as st

from .. import driver, gen
from ..driver import call, py_name
from ..history import Run, draw_op, STRUCT_OPS
from ..oracle import lexical
from ..oracle.schema import schema
from ..run import hyp_search, mix, Watchdog
from .c01 import enum_histories

RULE = ('own campaign over the shared strategies: (a) ALL histories of <=3 ops over add / remove / dot-None / '
        'to_string (both intelligent_choice values appended) on a deterministic symbol subset of every type; (b) '
        'Hypothesis-drawn adaptive histories on every element class with the full op set plus dedicated misuse: '
        'foreign children, non-element children, forward indices in and out of range, non-child remove / replace, '
        'undeclared and invalid attributes (incl. types with xlink / xml:space / anyURI attributes), invalid values, '
        'unknown dot names read and written, to_string with both intelligent_choice values.  Oracle per call: it '
        'returns, or raises a documented type (musicxml.exceptions / musicxml.xmlelement.exceptions families), or '
        'TypeError/ValueError while the op carried a value / attribute value / non-child / non-element that the '
        'oracle classes invalid, or AttributeError from the dot-name dispatcher for a name the schema does not allow '
        'on that element; anything else (NotImplementedError, IndexError, KeyError, NameError, RecursionError, '
        'AttributeError about None, bare ValueError on valid input ...) is a violation keyed by raise site; any byte '
        'on captured stdout/stderr is a violation; a 60 s watchdog per case reports a hang.  Non-trivial = a history '
        'with a call that raised or that went through duplication / intelligent choice; distinct by (element, ops).')
ASSUMPTIONS = ['import-time SyntaxWarnings of the interpreter are outside the statement (library calls)',
               '"never hangs" is a bounded observation (60 s watchdog on inputs that take milliseconds)']
EXHAUSTIVE = False

WEIGHTS = {'add': 10, 'add_fwd': 4, 'remove': 3, 'remove_nonchild': 2, 'replace': 2, 'replace_nonchild': 2,
           'dot_inst': 3, 'dot_val': 3, 'dot_none': 2, 'to_string': 4, 'set_attr': 3, 'set_attr_none': 1,
           'set_value': 2, 'add_nested': 2, 'remove_grandchild': 1, 'remove_elsewhere': 1,
           'share_out': 1, 'add_again': 1, 'replace_self': 2}


def value_invalid(run, op):
    """does the op carry something the oracle classes invalid (value, attribute value, non-child, non-element)?"""
    s = schema()
    k = op[0]
    if k in ('remove_nonchild', 'replace_nonchild', 'add_junk', 'remove_grandchild', 'remove_elsewhere'):
        return True
    if k == 'dot_val':
        tt = s.text_type(s.element_type[op[1]]) if op[1] in s.element_type else None
        return tt is None or not representable(tt, op[2])
    if k == 'set_value':
        tt = s.text_type(run.tkey)
        if tt is None:
            return op[1] not in ('', None)
        return not representable(tt, op[1])
    if k == 'set_attr':
        decl = {a['qname']: a for a in s.attributes_of(run.tkey)}
        a = decl.get(op[1])
        if a is None:
            return True
        return not representable(a['type'], op[2])
    if k == 'set_raw':
        # a raw dot assignment that names an allowed child or attribute is the dot_val / set_attr case
        nm, v = op[1], op[2]
        if v is None:
            return False
        if nm.startswith('xml_'):
            for a in run.alphabet:
                if py_name(a) == nm[4:]:
                    return value_invalid(run, ['dot_val', a, v])
            return False
        for a in s.attributes_of(run.tkey):
            if py_name(a['qname'].split(':')[-1]) == nm:
                return not representable(a['type'], v)
    return False


def representable(tt, v):
    """v is a documented Python representation of a text in the lexical space of tt (strict reading)"""
    ti = lexical.info(tt)
    members = [lexical.info(m) for m in ti.union] if ti.union is not None else [ti]
    names = ti.union if ti.union is not None else [tt]
    for nm, m in zip(names, members):
        if m.union is not None:
            if representable(nm, v):
                return True
            continue
        if m.primitive == 'decimal':
            if isinstance(v, bool) or not isinstance(v, (int, float)):
                continue
            if m.is_integer and not isinstance(v, int):
                continue
            if isinstance(v, float) and (v != v or v in (float('inf'), float('-inf'))):
                continue
            from decimal import Decimal
            txt = format(Decimal(repr(v)), 'f')
            if lexical.valid(nm, txt):
                return True
        else:
            if isinstance(v, str) and lexical.valid(nm, v, strict=True) and lexical.normalise(nm, v) == v:
                return True
    return False


def name_allowed(run, op):
    """is the dot name used by the op allowed by the schema on this element?"""
    s = schema()
    k = op[0]
    if k in ('dot_inst', 'dot_val', 'dot_none'):
        return op[1] in run.alphabet
    if k in ('set_attr', 'set_attr_none'):
        return any(a['qname'] == op[1] or py_name(a['qname'].split(':')[-1]) == op[1]
                   for a in s.attributes_of(run.tkey))
    if k in ('read', 'set_raw'):
        nm = op[1]
        if nm.startswith('xml_'):
            return any(py_name(a) == nm[4:] for a in run.alphabet)
        return any(py_name(a['qname'].split(':')[-1]) == nm for a in s.attributes_of(run.tkey))
    return True


def judge(run, op, r):
    """returns (kind, detail) for a violation or None"""
    if r is None:
        return None
    if r.out or r.err:
        return 'wrote-to-stdout-or-stderr', {'op': op, 'printed': (r.out + r.err)[:120]}
    if r.ok:
        return None
    if driver.is_documented(r.exc):
        return None
    if r.etype in ('TypeError', 'ValueError') and value_invalid(run, op):
        return None
    if r.etype == 'AttributeError' and op[0] in ('dot_inst', 'dot_val', 'dot_none', 'set_attr', 'set_attr_none',
                                                 'read', 'set_raw') and not name_allowed(run, op):
        return None      # AttributeError is the documented answer to a dot name the schema does not allow here
    return 'undocumented-exception', {'op': op, 'exception': r.etype, 'message': r.msg[:160]}


def F(run, bad, site):
    return {'kind': bad[0], 'type': run.tkey, 'site': site, 'input': {'element': run.el, 'ops': run.ops},
            'observed': bad[1], 'expected': 'success, a documented rejection type, or TypeError/ValueError for an '
                                            'invalid value / AttributeError for an unknown dot name; no output'}


def step(run, op):
    r = run.apply(op)
    bad = judge(run, op, r)
    if bad:
        return F(run, bad, r.site if r is not None and not r.ok else 'printed:%s' % op[0])
    return None


def execute(el, ops):
    run = Run(el)
    if run.e is None:
        c = run.construct
        if driver.is_documented(c.exc) or c.out or c.err:
            return run, None
        return run, {'kind': 'undocumented-exception', 'type': run.tkey, 'site': c.site,
                     'input': {'element': el, 'ops': []},
                     'observed': {'op': ['construct'], 'exception': c.etype, 'message': c.msg[:160]},
                     'expected': 'constructible'}
    for op in ops:
        with Watchdog(60):
            f = step(run, op)
        if f:
            return run, f
    return run, None


def replay_case(rec):
    inp = rec['input']
    return execute(inp['element'], [list(o) for o in inp['ops']])[1]


def nontrivial(run):
    names = run.names()
    return 'failed' in run.flags or len(set(names)) < len(names) or \
        any(op[0] == 'to_string' and op[1] for op in run.ops)


RAW_NAMES = st.one_of(
    st.sampled_from(['xml_', 'xml__', 'xml__pitch', 'xml_pitch_', 'xml_time__modification', 'xml', 'xmlx', 'x', '__', 'a_',
                     'font__family', 'font_', 'xml_Pitch', 'xml_pitch_x', 'XML_pitch', 'xml-pitch', 'default__x']),
    st.from_regex(r'(xml_)?[a-z_]{0,12}', fullmatch=True).filter(lambda n: n and not n.startswith('_')))


def raw_op(data):
    nm = data.draw(RAW_NAMES)
    if data.draw(st.booleans()):
        return ['read', nm]
    return ['set_raw', nm, data.draw(st.sampled_from(['x', 1, None, 1.5]))]


def make_body(ctx, acc):
    s = schema()
    te = gen.types_and_elements(all_elements=not ctx.quick)
    maxops = 12 if ctx.quick else 30

    def body(data):
        t, els = data.draw(st.sampled_from(te))
        el = data.draw(st.sampled_from(els))
        run = Run(el)
        if run.e is None:
            _, f = execute(el, [])
            if f:
                acc.fail(f)
            return
        for _ in range(data.draw(st.integers(1, maxops))):
            z = data.draw(st.integers(0, 11))
            if z == 0:
                op = ['add_junk', data.draw(st.integers(0, 5))]
            elif z == 1:
                n = data.draw(st.sampled_from(run.alphabet))
                op = ['add_fwd', n, data.draw(st.integers(0, run.leaf_counts.get(n, 1) + 2))]
            elif z == 2:
                op = ['read', data.draw(st.sampled_from(['xml_bogus', 'bogus', 'xml_' + py_name(run.alphabet[0]),
                                                         'font_family', 'number', 'type', 'id']))]
            elif z == 3:
                op = raw_op(data)
            else:
                op = draw_op(data, run, WEIGHTS, {'prefix': 4, 'compatible': 5, 'incompatible': 3, 'foreign': 2})
            with Watchdog(60):
                f = step(run, op)
            if f:
                acc.case({'element': el, 'ops': run.ops}, True, len(run.ops))
                acc.fail(f)
        for ic in (1, 0):
            with Watchdog(60):
                f = step(run, ['to_string', ic])
            if f:
                acc.case({'element': el, 'ops': run.ops}, True, len(run.ops))
                acc.fail(f)
        acc.case({'element': el, 'ops': run.ops}, nontrivial(run), len(run.ops))
        for fl in sorted(run.flags):
            acc.count(fl)
    return body


def shards(ctx):
    te = gen.types_and_elements()
    jobs = [{'mode': 'exh', 'types': part} for part in gen.chunk(te, 12)]
    for i in range(12):
        jobs.append({'mode': 'random', 'index': i})
    for i in range(4):
        jobs.append({'mode': 'leaf-classes', 'index': i})
    if not ctx.quick:
        for i in range(4):
            jobs.append({'mode': 'atheris', 'index': i})
    return jobs


def run_shard(ctx, shard, acc):
    s = schema()
    if shard['mode'] == 'exh':
        for t, els in shard['types']:
            for ops in enum_histories(t, 3, 8 if ctx.quick else 12):
                if ops[-1][0] == 'to_string':
                    continue
                run, f = execute(els[0], ops + [['to_string', 0], ['to_string', 1]])
                acc.case({'element': els[0], 'ops': run.ops}, nontrivial(run), len(run.ops))
                if f:
                    acc.fail(f, raise_=False)
        return
    if shard['mode'] == 'atheris':
        from ..fuzz import run_atheris
        run_atheris(ctx, acc, 'C19', shard['index'], seconds=int(120 * ctx.scale) or 10)
        return
    if shard['mode'] == 'leaf-classes':
        # every class (also those without element content): construction, attributes, values, unknown names
        names = sorted(s.element_type)

        def body(data):
            el = data.draw(st.sampled_from(names))
            run = Run(el)
            if run.e is None:
                _, f = execute(el, [])
                acc.case({'element': el, 'ops': []}, True, 0)
                if f:
                    acc.fail(f)
                return
            for _ in range(data.draw(st.integers(1, 8))):
                k = data.draw(st.sampled_from(['set_attr', 'set_attr', 'set_attr_none', 'set_value', 'read', 'read',
                                               'add_foreign', 'add_junk', 'to_string', 'raw', 'raw']))
                if k == 'read':
                    nm = data.draw(st.sampled_from(['xml_bogus', 'bogus', 'xml_pitch', 'font_family', 'number',
                                                    'type', 'id', 'xml_staff', 'placement', 'default_x', 'value',
                                                    'lang', 'space', 'href', 'source']))
                    op = ['read', nm]
                elif k == 'add_foreign':
                    op = ['add', data.draw(st.sampled_from(['pitch', 'words', 'staff', 'note']))]
                elif k == 'add_junk':
                    op = ['add_junk', data.draw(st.integers(0, 5))]
                elif k == 'to_string':
                    op = ['to_string', data.draw(st.integers(0, 1))]
                elif k == 'raw':
                    op = raw_op(data)
                else:
                    op = draw_op(data, run, {kk: (1 if kk == k else 0) for kk in list(WEIGHTS) + ['deepcopy']})
                with Watchdog(60):
                    f = step(run, op)
                if f:
                    acc.case({'element': el, 'ops': run.ops}, True, len(run.ops))
                    acc.fail(f)
            acc.case({'element': el, 'ops': run.ops}, nontrivial(run), len(run.ops))
        hyp_search(acc, body, mix(ctx.seed, 'C19l', shard['index']), ctx.budget(1500, 30000))
        return
    body = make_body(ctx, acc)
    hyp_search(acc, body, mix(ctx.seed, 'C19', shard['index']), ctx.budget(900, 18000))
