"""C20 - independent documents can be built concurrently from several threads."""
import json
import os
import subprocess
import sys

from hypothesis import strategies as st

from .. import driver
from ..driver import py_name
from ..oracle import lexical
from ..oracle.schema import schema
from ..run import hyp_search, mix
from . import c14

RULE = ('pairs (A, B) of build-validate-serialise workloads (element + oracle-valid attributes + value + simple '
        'children) drawn from the oracle\'s type graph: same complex type / same element class / types sharing an '
        'attribute group / unrelated control, plus a fixed panel of pairs (and, derived from the oracle, one pair per enumerated simple type that restricts another enumerated type: A offers the derived type a literal only the base allows, B offers it to the base type; and one pair per referenced attribute (xml:lang) that is required in one type and optional in another; and one pair of complete scores that are also written to two paths of one directory and read back); for each pair EVERY single-pre-emption '
        'schedule is executed: thread A is stopped by a sys.settrace line hook at its k-th executed line inside the '
        'musicxml package (k = 1..N, N measured, ~2-4k), thread B runs to completion in the gap, A resumes.  Each '
        'schedule runs in a child forked from a fresh interpreter that has only imported the library, so the lazily '
        'initialised shared tables are pristine for every schedule and no private cache has to be reset.  Oracle: '
        'both threads\' results (text, or exception type + message) equal their solo results.  Non-trivial = the '
        'pre-emption point is a first-use line (executed in A\'s first run but not in a second run in the same '
        'process); exhaustive per panel pair in the thorough tier; the quick tier caps k per pair, the thorough tier caps k at 2500 for drawn pairs, both rotate the window with the seed.')
ASSUMPTIONS = ['one pre-emption, line granularity, two threads - the quantifier of the property; finer-grained races '
               'are out of reach', 'a 30 s wait for thread B is treated as a hang and counted as inconclusive']
EXHAUSTIVE = False

PANEL = [
    ({'element': 'words', 'value': 'hi', 'attrs': {'font_size': 12, 'default_x': 1}},
     {'element': 'rehearsal', 'value': 'A', 'attrs': {'font_size': 10, 'enclosure': 'square'}}),
    ({'element': 'note', 'value': None, 'attrs': {'default_x': 1.5}, 'children': [['rest', None], ['duration', 1]]},
     {'element': 'note', 'value': None, 'attrs': {'print_object': 'no'}, 'children': [['rest', None], ['duration', 2]]}),
    ({'element': 'pitch', 'value': None, 'attrs': {}, 'children': [['step', 'C'], ['octave', 4]]},
     {'element': 'pitch', 'value': None, 'attrs': {}, 'children': [['step', 'D'], ['alter', 1], ['octave', 5]]}),
    # B omits a schema-required attribute: its solo result is the required-attribute exception
    ({'element': 'tie', 'value': None, 'attrs': {'type': 'start'}},
     {'element': 'tie', 'value': None, 'attrs': {}}),
    # first use of an enumeration type and of a union type from both threads
    ({'element': 'step', 'value': 'A', 'attrs': {}}, {'element': 'step', 'value': 'H', 'attrs': {}}),
    ({'element': 'words', 'value': 'a', 'attrs': {'font_size': 12.5}},
     {'element': 'words', 'value': 'b', 'attrs': {'font_size': 'large', 'font_weight': 'bold'}}),
    ({'element': 'accent', 'value': None, 'attrs': {'placement': 'above'}},
     {'element': 'staccato', 'value': None, 'attrs': {'placement': 'below', 'color': '#000000'}}),
]


def derived_enumeration_pairs():
    """from the oracle: every enumerated simple type T that restricts another enumerated type B.  Thread A gives a user
    of T a literal that only B allows (alone: the type's ValueError), thread B gives a user of B the same literal (valid).
    Whatever shared table the two classes initialise lazily, A's verdict must not depend on B having run first."""
    from ..oracle import lexical
    s = schema()
    out = []
    for tn in sorted(lexical.all_simple_type_names()):
        ti = lexical.info(tn)
        if ti.enumeration is None or ti.union is not None or not ti.base or ti.base.startswith('xs:'):
            continue
        bi = lexical.info(ti.base)
        extra = sorted(set(bi.enumeration or []) - set(ti.enumeration))
        if not extra:
            continue

        def user(type_name, literal):
            for el, t in sorted(s.element_type.items()):
                if s.text_type(t) == type_name:
                    return {'element': el, 'value': literal, 'attrs': {}}
            for el, t in sorted(s.element_type.items()):
                for a in s.attributes_of(t):
                    if a['type'] == type_name:
                        from ..driver import stub_value, py_name
                        return {'element': el, 'value': stub_value(el), 'attrs': {py_name(a['qname'].split(':')[-1]): literal}}
            return None
        wa, wb = user(tn, extra[0]), user(ti.base, extra[0])
        if wa and wb:
            out.append((wa, wb))
    return out


def referenced_attribute_pairs():
    """from the oracle: attributes declared once and REFERENCED from several types (xml:lang) with different 'use'.
    Thread A uses a type where the attribute is required (and sets it), thread B serialises an element of a type where
    it is optional and leaves it out: whatever the two share, B gets its document."""
    from ..oracle import lexical
    from ..driver import stub_value, py_name
    s = schema()
    uses = {}
    for el, t in sorted(s.element_type.items()):
        for a in s.attributes_of(t):
            if a['qname'].startswith('xml:') and a['qname'] != 'xml:space':
                uses.setdefault(a['qname'], {}).setdefault(bool(a['required']), []).append((el, a))
    out = []
    for q, by in sorted(uses.items()):
        if by.get(True) and by.get(False):
            el_r, a = by[True][0]
            ok, pv = lexical.python_value_for(a['type'], lexical.valid_texts(a['type'])[0])
            wa = {'element': el_r, 'value': stub_value(el_r), 'attrs': {py_name(q.split(':')[-1]): pv}}
            for el_o, _ in by[False][:2]:
                out.append((wa, {'element': el_o, 'value': stub_value(el_o), 'attrs': {}}))
    return out


PANEL += derived_enumeration_pairs()
PANEL += referenced_attribute_pairs()
# two threads write their own scores to two paths in the same directory
def _score(version, title, path):
    return {'element': 'score-partwise', 'value': None, 'attrs': {'version': version}, 'write': path,
            'children': [['movement-title', title],
                         ['part-list', None, {}, [['score-part', None, {'id': 'P1'}, [['part-name', 'x']]]]],
                         ['part', None, {'id': 'P1'}, [['measure', None, {'number': '1'}]]]]}


PANEL.append((_score('4.0', 'first', 'a.xml'), _score('3.1', 'second', 'b.xml')))
# thread A takes an error path of the shared attribute table (an undeclared attribute), thread B uses the same type
PANEL.append(({'element': 'supports', 'value': None, 'attrs': {'bogus_zz': 'x'}},
              {'element': 'supports', 'value': None, 'attrs': {'type': 'yes', 'element': 'print'}}))


def run_pair(wa, wb, ks=None, max_k=None, offset=0, slice_=None, of=None):
    env = dict(os.environ)
    spec = {'a': wa, 'b': wb, 'ks': ks, 'max_k': max_k, 'offset': offset, 'slice': slice_, 'of': of}
    out = subprocess.run([sys.executable, '-B', '-W', 'ignore', '-m', 'mxv.sched', json.dumps(spec)], env=env,
                         capture_output=True, text=True, timeout=5400)
    if out.returncode != 0 or not out.stdout:
        raise RuntimeError('schedule driver failed: %s' % out.stderr[-600:])
    return json.loads(out.stdout)


def F(wa, wb, bad, res):
    return {'kind': 'result-depends-on-interleaving', 'type': schema().element_type[wa['element']], 'site': None,
            'input': {'a': wa, 'b': wb, 'k': bad['k']},
            'observed': {'k': bad['k'], 'line': bad.get('line'), 'a': bad.get('a'), 'b': bad.get('b'),
                         'failing_schedules': res['n_bad'], 'of': res['ran']},
            'expected': {'a': res['solo']['a'], 'b': res['solo']['b']}}


def replay_case(rec):
    inp = rec['input']
    res = run_pair(inp['a'], inp['b'], ks=[inp['k']])
    if res['n_bad']:
        return F(inp['a'], inp['b'], res['bad'][0], res)
    return None


def draw_workload(data, el):
    s = schema()
    t = s.element_type[el]
    w = {'element': el, 'value': None, 'attrs': {}, 'children': []}
    tt = s.text_type(t)
    if tt is not None:
        w['value'] = driver.stub_value(el)
    attrs = c14.usable_attrs(t)
    drop_required = data.draw(st.integers(0, 3)) == 0     # an invalid workload: the expected result is an exception
    for a in attrs:
        if a['required'] and drop_required:
            continue
        if a['required'] or (len(w['attrs']) < 3 and data.draw(st.integers(0, 3)) == 0):
            txt = a['fixed'] or data.draw(st.sampled_from(lexical.valid_texts(a['type'])))
            ok, pv = lexical.python_value_for(a['type'], txt)
            if ok:
                w['attrs'][py_name(a['qname'].split(':')[-1])] = pv
    if s.content_kind(t) == 'elements':
        word = s.dfa(t).shortest_completion(0)
        if all(s.content_kind(s.element_type[c]) != 'elements' or s.dfa(s.element_type[c]).accepts(())
               for c in word) and len(word) <= 4:
            for c in word:
                w['children'].append([c, driver.stub_value(c)])
    return w


PANEL_SLICES = 8


def shards(ctx):
    n = 12 if ctx.quick else 48
    # thorough: every line of every panel pair; a pair's lines are dealt round-robin to PANEL_SLICES shards
    of = 2 if ctx.quick else PANEL_SLICES
    return [{'mode': 'panel', 'index': i, 'slice': j, 'of': of} for i in range(len(PANEL)) for j in range(of)] + \
        [{'mode': 'drawn', 'index': i} for i in range(n)]


def run_shard(ctx, shard, acc):
    s = schema()
    by_type = {}
    for el, t in sorted(s.element_type.items()):
        if t in s.complex and t not in c14.EXCLUDED_TYPES and c14.usable_attrs(t):
            by_type.setdefault(t, []).append(el)
    types = sorted(by_type)
    group_users = {}
    for t in types:
        node = s.complex[t]
        for g in node.iter('{http://www.w3.org/2001/XMLSchema}attributeGroup'):
            group_users.setdefault(g.get('ref'), []).append(t)
    groups = sorted(g for g, ts in group_users.items() if len(ts) >= 2)
    per = 2 if ctx.quick else 6     # Hypothesis' first example is always the minimal one; the following are drawn

    def explore_pair(wa, wb, rel, slice_=None, of=None):
        # quick tier: the fixed panel is explored exhaustively up to 3200 lines per pair (three of the four pairs completely), drawn pairs are thinned to 400 schedules; thorough: panel pairs exhaustively, drawn pairs up to 2500 schedules
        # (the score pair that also writes its files is thinned like a drawn pair; its last 80 lines - the file
        # I/O - are always explored completely)
        if ctx.quick:
            max_k = 400 if rel != 'panel' or wa.get('write') else 3200 // (of or 1)
        else:
            # thorough: panel pairs completely (sliced over the shards); a drawn pair up to 2500 schedules (complete for
            # all but the note-sized workloads, whose 12 000 lines would take an hour in one shard)
            max_k = None if rel == 'panel' else 2500
        res = run_pair(wa, wb, max_k=max_k, offset=ctx.seed,
                       slice_=slice_, of=of if (of or 1) > 1 else None)
        acc.evaluations += res['ran'] - 1
        acc.case({'a': wa, 'b': wb, 'schedules': res['ran'], 'first_use_schedules': res['nontrivial']}, True,
                 res['ran'])
        acc.count('pairs-' + rel)
        acc.count('schedules', res['ran'])
        acc.count('schedules-at-first-use-lines', res['nontrivial'])
        acc.extras['schedules'] = acc.extras.get('schedules', 0) + res['ran']
        acc.extras['nontrivial_schedules'] = acc.extras.get('nontrivial_schedules', 0) + res['nontrivial']
        if res['hung']:
            acc.inconclusive += res['hung']
        if res['n_bad']:
            return F(wa, wb, res['bad'][0], res)
        return None

    if shard['mode'] == 'panel':
        wa, wb = PANEL[shard['index']]
        f = explore_pair(wa, wb, 'panel', shard.get('slice'), shard.get('of'))
        if f:
            acc.fail(f, raise_=False)
        return

    def body(data):
        if True:
            rel = data.draw(st.sampled_from(['same-type', 'same-type', 'same-class', 'shared-group', 'shared-group',
                                             'unrelated']))
            if rel == 'same-type':
                t = data.draw(st.sampled_from([t for t in types if len(by_type[t]) >= 2]))
                ea, eb = data.draw(st.sampled_from(by_type[t])), data.draw(st.sampled_from(by_type[t]))
            elif rel == 'same-class':
                t = data.draw(st.sampled_from(types))
                ea = eb = data.draw(st.sampled_from(by_type[t]))
            elif rel == 'shared-group':
                g = data.draw(st.sampled_from(groups))
                ta, tb = data.draw(st.sampled_from(group_users[g])), data.draw(st.sampled_from(group_users[g]))
                ea, eb = data.draw(st.sampled_from(by_type[ta])), data.draw(st.sampled_from(by_type[tb]))
            else:
                ea = data.draw(st.sampled_from(by_type[data.draw(st.sampled_from(types))]))
                eb = data.draw(st.sampled_from(by_type[data.draw(st.sampled_from(types))]))
            wa, wb = draw_workload(data, ea), draw_workload(data, eb)
        f = explore_pair(wa, wb, rel)
        if f:
            acc.fail(f)
    hyp_search(acc, body, mix(ctx.seed, 'C20', shard['index']), per, shrink=False)


def finish(ctx, merged):
    # distinct_nontrivial for this property = schedules whose pre-emption point is a first-use line (each schedule
    # (pair, k) is distinct by construction); recorded through synthetic keys so the common accounting applies
    n = int(merged['extras'].get('nontrivial_schedules', 0))
    merged['nontrivial'] = set('s%d' % i for i in range(n))
