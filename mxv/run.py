"""Runner: ./check <ID> --tier quick|thorough [--replay FILE]

exit 0  nothing unlisted violated
exit 1  + 'VIOLATION property=<id> replay=<path>' for every unlisted violation
exit 2  harness error (import failure, oracle self-test failure, generator failure)
"""
import argparse
import hashlib
import importlib
import json
import multiprocessing as mp
import os
import signal
import sys
import time
import traceback

ROOT = os.path.dirname(os.path.dirname(os.path.abspath(__file__)))


class Violation(Exception):
    def __init__(self, failure):
        super().__init__(failure.get('kind'))
        self.failure = failure


class HarnessError(Exception):
    pass


def sig_of(failure):
    return (failure.get('kind'), failure.get('type'), failure.get('site'))


def canon(x):
    return json.dumps(x, sort_keys=True, separators=(',', ':'), ensure_ascii=True, default=str)


def h(x):
    return hashlib.sha1(canon(x).encode()).hexdigest()[:16]


def mix(*parts):
    return int(hashlib.sha256(canon(parts).encode()).hexdigest()[:12], 16)


class Ctx:
    def __init__(self, prop, tier, seed, workers=None):
        self.prop = prop
        self.tier = tier
        self.seed = seed
        self.workers = workers or min(16, os.cpu_count() or 1)
        self.scale = float(os.environ.get('VERIF_SCALE', '1'))

    def budget(self, quick, thorough):
        v = quick if self.tier == 'quick' else thorough
        return max(1, int(v * self.scale))

    @property
    def quick(self):
        return self.tier == 'quick'


class Acc:
    """per-shard accumulator (picklable via .dump())"""

    def __init__(self, ctx, shard=None):
        from .kf import KnownFindings
        self.ctx = ctx
        self.shard = shard
        self.kf = KnownFindings()
        self.evaluations = 0
        self.nontrivial = set()
        self.samples = []
        self.classes = {}
        self.failures = []
        self.kf_hits = {}
        self.kf_examples = {}
        self.inconclusive = 0
        self.extras = {}
        self.reported = set()
        self.sample_cap = 6
        self._largest = (-1, None)

    def count(self, label, n=1):
        self.classes[label] = self.classes.get(label, 0) + n

    def case(self, case, nontrivial=False, size=0):
        """register one executed case"""
        self.evaluations += 1
        if nontrivial:
            k = h(case)
            if k not in self.nontrivial:
                self.nontrivial.add(k)
                if len(self.samples) < self.sample_cap:
                    self.samples.append(case)
            if size > self._largest[0]:
                self._largest = (size, case)

    def fail(self, failure, raise_=True):
        """oracle disagreement.  Known finding -> counted, case goes on.  Otherwise Violation."""
        kid = self.kf.match(self.ctx.prop, failure)
        if os.environ.get('VERIF_COLLECT'):
            failure = dict(failure)
            failure['kf'] = kid
            self.failures.append(failure)
            return False
        if kid:
            self.kf_hits[kid] = self.kf_hits.get(kid, 0) + 1
            self.kf_examples.setdefault(kid, failure.get('input'))
            return False
        if sig_of(failure) in self.reported:
            return False
        if raise_:
            raise Violation(failure)
        self.failures.append(failure)
        self.reported.add(sig_of(failure))
        return True

    def dump(self):
        smp = list(self.samples)
        if self._largest[1] is not None and self._largest[1] not in smp:
            smp.append(self._largest[1])
        return {'evaluations': self.evaluations, 'nontrivial': sorted(self.nontrivial), 'samples': smp,
                'classes': self.classes, 'failures': self.failures, 'kf_hits': self.kf_hits,
                'kf_examples': self.kf_examples,
                'inconclusive': self.inconclusive, 'extras': self.extras}


def hyp_search(acc, body, seed, max_examples, max_distinct=3, shrink=True, step_cap=None):
    """Drive ``body(data)`` with Hypothesis.  ``body`` raises Violation (via acc.fail) on an unlisted
    oracle disagreement; the shrunk failure is recorded and the search resumes with the remaining
    budget while treating that signature as already reported."""
    import hypothesis
    from hypothesis import HealthCheck, Phase, given, settings, strategies as st
    from hypothesis.errors import Flaky, FlakyFailure
    remaining = max_examples
    rounds = 0
    while remaining > 0 and rounds <= max_distinct:
        counter = {'n': 0, 'valid': 0}
        phases = [Phase.generate, Phase.shrink] if shrink else [Phase.generate]

        @hypothesis.seed(mix(seed, rounds))
        @settings(max_examples=remaining, database=None, deadline=None, derandomize=False,
                  report_multiple_bugs=False, phases=phases,
                  suppress_health_check=[HealthCheck.too_slow, HealthCheck.data_too_large,
                                         HealthCheck.large_base_example],
                  verbosity=hypothesis.Verbosity.quiet)
        @given(st.data())
        def t(data):
            counter['n'] += 1
            body(data)
            counter['valid'] += 1

        try:
            t()
            remaining = 0
        except Violation as v:
            acc.failures.append(v.failure)
            acc.reported.add(sig_of(v.failure))
            remaining -= max(counter['valid'], 1)
            rounds += 1
        except (Flaky, FlakyFailure) as ex:
            acc.inconclusive += 1
            acc.extras.setdefault('flaky', []).append(str(ex)[:300])
            remaining -= max(counter['valid'], 1)
            rounds += 1


class Watchdog:
    """case-level watchdog: a hang becomes driver.Timeout inside the case"""

    def __init__(self, seconds=120):
        self.seconds = seconds

    def __enter__(self):
        from .driver import Timeout

        def onalarm(signum, frame):
            raise Timeout()
        self._old = signal.signal(signal.SIGALRM, onalarm)
        signal.setitimer(signal.ITIMER_REAL, self.seconds)
        return self

    def __exit__(self, *a):
        signal.setitimer(signal.ITIMER_REAL, 0)
        signal.signal(signal.SIGALRM, self._old)
        return False


def _worker(args):
    prop, tier, seed, shard, scale = args
    os.environ['VERIF_SCALE'] = str(scale)
    try:
        mod = importlib.import_module('mxv.props.' + prop.lower())
        ctx = Ctx(prop, tier, seed)
        acc = Acc(ctx, shard)
        mod.run_shard(ctx, shard, acc)
        from . import driver
        out = acc.dump()
        out['sightings'] = driver.SIGHTINGS[:50]
        return out
    except BaseException as ex:   # noqa: BLE001
        return {'harness_error': '%s: %s\n%s' % (type(ex).__name__, ex, traceback.format_exc())}


def merge(results):
    m = {'evaluations': 0, 'nontrivial': set(), 'samples': [], 'classes': {}, 'failures': [], 'kf_hits': {},
         'kf_examples': {}, 'inconclusive': 0, 'extras': {}, 'sightings': []}
    for r in results:
        m['evaluations'] += r['evaluations']
        m['nontrivial'].update(r['nontrivial'])
        for s in r['samples']:
            if len(m['samples']) < 12:
                m['samples'].append(s)
        for k, v in r['classes'].items():
            m['classes'][k] = m['classes'].get(k, 0) + v
        m['failures'].extend(r['failures'])
        for k, v in r['kf_hits'].items():
            m['kf_hits'][k] = m['kf_hits'].get(k, 0) + v
        for k, v in r.get('kf_examples', {}).items():
            m['kf_examples'].setdefault(k, v)
        m['inconclusive'] += r['inconclusive']
        for k, v in r['extras'].items():
            if isinstance(v, (int, float)) and not isinstance(v, bool):
                m['extras'][k] = m['extras'].get(k, 0) + v
            elif isinstance(v, list):
                m['extras'].setdefault(k, [])
                m['extras'][k].extend(v[:20])
                m['extras'][k] = m['extras'][k][:40]
            elif isinstance(v, dict):
                d = m['extras'].setdefault(k, {})
                for kk, vv in v.items():
                    if isinstance(vv, (int, float)) and not isinstance(vv, bool):
                        d[kk] = d.get(kk, 0) + vv
                    else:
                        d.setdefault(kk, vv)
            else:
                m['extras'].setdefault(k, v)
        for s in r.get('sightings', []):
            if s not in m['sightings'] and len(m['sightings']) < 40:
                m['sightings'].append(s)
    return m


def write_evidence(ctx, mod, merged, wall, violations, kf_reproduced, corpus_n):
    cov = {
        'evaluations': merged['evaluations'],
        'distinct_nontrivial': len(merged['nontrivial']),
        'rule': mod.RULE,
        'samples': merged['samples'][:12],
        'class_distribution': dict(sorted(merged['classes'].items())),
        'excluded_by_known_finding': merged['kf_hits'],
        'known_findings_reproduced': kf_reproduced,
        'corpus_replayed': corpus_n,
        'inconclusive': merged['inconclusive'],
        'c19_sightings': merged['sightings'][:20],
    }
    for k, v in merged['extras'].items():
        cov.setdefault(k, v)
    if getattr(mod, 'EXHAUSTIVE', None) is not None:
        ex = mod.EXHAUSTIVE(ctx) if callable(mod.EXHAUSTIVE) else mod.EXHAUSTIVE
        cov['exhaustive'] = bool(ex)
    ev = {
        'property_id': ctx.prop, 'tier': ctx.tier, 'seed': ctx.seed, 'level': getattr(mod, 'LEVEL', 'exploration'),
        'coverage': cov, 'assumptions': getattr(mod, 'ASSUMPTIONS', []) + COMMON_ASSUMPTIONS,
        'wall_s': round(wall, 2), 'violations': violations,
    }
    # evidence always describes a run against /repo; sensitivity runs against a scratch copy (tools/eval_seed.py)
    # redirect it so that the committed evidence is never overwritten by them
    edir = os.environ.get('VERIF_EVIDENCE_DIR') or os.path.join(ROOT, 'evidence')
    os.makedirs(edir, exist_ok=True)
    path = os.path.join(edir, ctx.prop + '.json')
    with open(path, 'w', encoding='utf-8') as f:
        json.dump(ev, f, indent=1, ensure_ascii=True, default=str)
        f.write('\n')
    try:
        import jsonschema
        with open('/root/.vp/EVIDENCE.schema.json', encoding='utf-8') as f:
            jsonschema.validate(ev, json.load(f))
    except ImportError:
        pass
    except FileNotFoundError:
        pass
    return path


COMMON_ASSUMPTIONS = [
    'mxv/oracle/pinned/musicxml_4_0.xsd (sha256 pinned) is the genuine MusicXML 4.0 schema',
    'the oracle (mxv/oracle: particle->DFA compiler, lexical validator) is correct; it is self-tested on every run '
    'and cross-validated against the library\'s independently generated templates by C03',
    'CPython 3.12 and xml.etree behave as documented; Hypothesis is trusted for generation/shrinking only',
]


def save_replay(prop, failure, seed):
    d = os.path.join(ROOT, 'replays', prop)
    os.makedirs(d, exist_ok=True)
    rec = {'property': prop, 'seed': seed}
    rec.update(failure)
    path = os.path.join(d, h([failure.get('kind'), failure.get('type'), failure.get('input')]) + '.json')
    with open(path, 'w', encoding='utf-8') as f:
        json.dump(rec, f, indent=1, ensure_ascii=True, default=str)
        f.write('\n')
    return os.path.relpath(path, ROOT)


def self_tests():
    from .oracle import lexical, schema
    schema.self_test()
    lexical.self_test()


def replay_file(ctx, mod, path):
    from .kf import KnownFindings
    with open(path, encoding='utf-8') as f:
        rec = json.load(f)
    with Watchdog(300):
        res = mod.replay_case(rec)
    if res is None:
        print('replay: property held on %s' % path)
        return 0
    kid = KnownFindings().match(ctx.prop, res)
    if kid:
        print('KNOWN-FINDING: property=%s %s (%s)' % (ctx.prop, kid, res.get('kind')))
        return 0
    print('observed: %s' % json.dumps(res, default=str)[:2000])
    print('VIOLATION property=%s replay=%s' % (ctx.prop, path))
    return 1


def main(argv=None):
    ap = argparse.ArgumentParser()
    ap.add_argument('prop')
    ap.add_argument('--tier', default=os.environ.get('VERIF_TIER') or 'quick', choices=['quick', 'thorough'])
    ap.add_argument('--replay')
    ap.add_argument('--workers', type=int, default=None)
    ap.add_argument('--serial', action='store_true')
    ap.add_argument('--collect', help='authoring aid: write EVERY oracle disagreement (listed or not) to this '
                                      'JSONL file, report nothing, exit 0')
    a = ap.parse_args(argv)
    prop = a.prop.upper()
    try:
        seed = int(os.environ.get('VERIF_SEED', '1') or '1')
    except ValueError:
        seed = mix(os.environ.get('VERIF_SEED'))
    ctx = Ctx(prop, a.tier, seed, a.workers)
    t0 = time.time()
    try:
        self_tests()
        mod = importlib.import_module('mxv.props.' + prop.lower())
    except Exception:   # noqa: BLE001
        traceback.print_exc()
        print('HARNESS-ERROR property=%s self-test or import failed' % prop)
        return 2
    if a.replay:
        return replay_file(ctx, mod, a.replay)

    from .kf import KnownFindings
    kf = KnownFindings()
    violations = []
    if a.collect:
        os.environ['VERIF_COLLECT'] = '1'
    # 1. corpus replay tier (seconds)
    corpus_n = 0
    cdir = os.path.join(ROOT, 'corpus', prop)
    if os.path.isdir(cdir):
        for fn in sorted(os.listdir(cdir)):
            if fn.endswith('.json'):
                with open(os.path.join(cdir, fn), encoding='utf-8') as f:
                    rec = json.load(f)
                corpus_n += 1
                try:
                    with Watchdog(300):
                        res = mod.replay_case(rec)
                except Exception:   # noqa: BLE001
                    traceback.print_exc()
                    print('HARNESS-ERROR property=%s corpus file %s' % (prop, fn))
                    return 2
                if res is not None and not kf.match(prop, res):
                    violations.append(res)
    # 2. witnesses of the known findings
    kf_reproduced = []
    for e in kf.open_for(prop):
        for w in e.get('witnesses', {}).get(prop, []):
            try:
                with Watchdog(300):
                    res = mod.replay_case(w)
            except Exception:   # noqa: BLE001
                traceback.print_exc()
                print('HARNESS-ERROR property=%s witness of %s' % (prop, e['id']))
                return 2
            if res is not None:
                print('KNOWN-FINDING: property=%s %s: %s' % (prop, e['id'], e['summary']))
                kf_reproduced.append(e['id'])
                break
    for e in kf.fixed_for(prop):
        for w in e.get('witnesses', {}).get(prop, []):
            with Watchdog(300):
                res = mod.replay_case(w)
            if res is not None:
                violations.append(res)   # a fixed entry suppresses nothing
    # 3. generated search
    shards = mod.shards(ctx)
    jobs = [(prop, ctx.tier, seed, s, ctx.scale) for s in shards]
    if a.serial or ctx.workers == 1:
        results = [_worker(j) for j in jobs]
    else:
        with mp.get_context('fork').Pool(ctx.workers, maxtasksperchild=None) as pool:
            results = list(pool.imap_unordered(_worker, jobs, chunksize=1))
    errs = [r['harness_error'] for r in results if 'harness_error' in r]
    if errs:
        print(errs[0])
        print('HARNESS-ERROR property=%s %d shard(s) failed' % (prop, len(errs)))
        return 2
    merged = merge(results)
    if hasattr(mod, 'finish'):
        mod.finish(ctx, merged)
    if a.collect:
        with open(a.collect, 'w', encoding='utf-8') as f:
            for fl in merged['failures']:
                f.write(json.dumps(fl, sort_keys=True, default=str) + '\n')
        print('collected %d disagreements over %d cases -> %s' % (len(merged['failures']), merged['evaluations'],
                                                                 a.collect))
        return 0
    violations.extend(merged['failures'])
    # 4. confirm + report
    seen = set()
    reported = 0
    lines = []
    for fl in violations:
        s = (fl.get('kind'), fl.get('type'), fl.get('site'), canon(fl.get('input')) if len(violations) < 4 else '')
        if s in seen:
            continue
        seen.add(s)
        try:
            with Watchdog(300):
                again = mod.replay_case(fl)
        except Exception:   # noqa: BLE001
            again = {'kind': 'replay-crashed'}
        if again is None:
            merged['inconclusive'] += 1
            merged['extras'].setdefault('unreproduced', []).append(fl)
            continue
        path = save_replay(prop, fl, seed)
        lines.append('VIOLATION property=%s replay=%s' % (prop, path))
        print('  kind=%s type=%s site=%s input=%s observed=%s' % (
            fl.get('kind'), fl.get('type'), fl.get('site'), canon(fl.get('input'))[:400],
            str(fl.get('observed'))[:300]))
        reported += 1
        if reported >= 10:
            break
    wall = time.time() - t0
    try:
        write_evidence(ctx, mod, merged, wall, reported, kf_reproduced, corpus_n)
    except Exception:   # noqa: BLE001
        traceback.print_exc()
        print('HARNESS-ERROR property=%s evidence invalid' % prop)
        return 2
    print('%s %s seed=%d: %d cases, %d distinct non-trivial, %d known-finding hits, %d inconclusive, %.1fs' % (
        prop, ctx.tier, seed, merged['evaluations'], len(merged['nontrivial']), sum(merged['kf_hits'].values()),
        merged['inconclusive'], wall))
    for ln in lines:
        print(ln)
    return 1 if reported else 0


if __name__ == '__main__':
    sys.exit(main())
