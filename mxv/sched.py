"""Schedule controller for C20: single-pre-emption, line-granular interleavings of two threads.

Run as a fresh interpreter (``python -m mxv.sched '<json>'``) so that the library's lazily initialised shared tables
are in their post-import state; every schedule is then executed in a child created with os.fork(), i.e. each
schedule starts from exactly that pristine state, without the harness having to know (or reset) any private cache.

input  {"a": workload, "b": workload, "ks": null | [k, ...], "max_k": int}
output {"n_lines": N, "first_use_lines": M, "solo": {"a": .., "b": ..}, "bad": [{"k":..,"a":..,"b":..}], "ran": n,
        "nontrivial": n, "hung": n}

workload = {"element": name, "value": v|null, "attrs": {py: v}, "children": [[name, value|null], ...]}
"""
import json
import os
import sys
import threading
import warnings

warnings.filterwarnings('ignore')


def build_and_serialise(w):
    import musicxml.xmlelement.xmlelement as X
    from musicxml.util.core import convert_to_xml_class_name
    try:
        cls = getattr(X, convert_to_xml_class_name(w['element']))
        args = () if w.get('value') is None else (w['value'],)
        e = cls(*args, **w.get('attrs', {}))
        def make(spec):
            # [name, value] or [name, value, attrs, children]
            c = getattr(X, convert_to_xml_class_name(spec[0]))
            kw = spec[2] if len(spec) > 2 else {}
            k = c(spec[1], **kw) if spec[1] is not None else c(**kw)
            for sub in (spec[3] if len(spec) > 3 else []):
                k.add_child(make(sub))
            return k
        for spec in w.get('children', []):
            e.add_child(make(spec))
        out = 'ok:' + e.to_string()
        if w.get('write'):
            # file I/O is part of "build, validate and serialise": each thread writes ITS document to its own path
            # (both paths in one directory of this forked child) and reads it back
            import tempfile
            d = os.path.join(tempfile.gettempdir(), 'mxv_c20_%d' % os.getpid())
            os.makedirs(d, exist_ok=True)
            path = os.path.join(d, w['write'])
            e.write(path)
            with open(path, 'rb') as f:
                out += '|file:' + f.read().decode('utf-8', 'replace')
            os.unlink(path)
        return out
    except Exception as ex:   # noqa: BLE001 - the outcome (type + message) is the observation
        return 'exc:%s:%s' % (type(ex).__name__, str(ex)[:200])


def _pkg_dir():
    import musicxml
    return os.path.dirname(os.path.abspath(musicxml.__file__)) + os.sep


def in_child(fn):
    """run fn() in a forked child, return its JSON-able result"""
    r, w = os.pipe()
    pid = os.fork()
    if pid == 0:
        try:
            os.close(r)
            out = fn()
            os.write(w, json.dumps(out).encode('utf-8'))
        finally:
            # the scratch directory of this child's 'write' workloads (both threads are done by now)
            try:
                import shutil
                import tempfile
                shutil.rmtree(os.path.join(tempfile.gettempdir(), 'mxv_c20_%d' % os.getpid()), ignore_errors=True)
            finally:
                os._exit(0)
    os.close(w)
    chunks = []
    while True:
        b = os.read(r, 65536)
        if not b:
            break
        chunks.append(b)
    os.close(r)
    os.waitpid(pid, 0)
    data = b''.join(chunks)
    return json.loads(data.decode('utf-8')) if data else None


def trace_lines(w, twice=True):
    """(file, line) of every library line executed by the workload; run 1 and run 2 in the same process"""
    pkg = _pkg_dir()
    runs = []
    for _ in range(2 if twice else 1):
        lines = []

        def tr(frame, ev, arg, lines=lines):
            if frame.f_code.co_filename.startswith(pkg):
                if ev == 'line':
                    lines.append((os.path.basename(frame.f_code.co_filename), frame.f_lineno))
                return tr
            return None
        sys.settrace(tr)
        try:
            res = build_and_serialise(w)
        finally:
            sys.settrace(None)
        runs.append(lines)
    return {'first': runs[0], 'second': runs[1] if twice else [], 'result': res}


def run_schedule(wa, wb, k):
    """thread A is stopped at its k-th executed library line, thread B runs to completion, A resumes"""
    pkg = _pkg_dir()
    res = {'hung': False}
    go_b = threading.Event()
    b_done = threading.Event()

    def tb():
        go_b.wait()
        res['b'] = build_and_serialise(wb)
        b_done.set()

    def ta():
        n = [0]

        def tr(frame, ev, arg):
            if frame.f_code.co_filename.startswith(pkg):
                if ev == 'line':
                    n[0] += 1
                    if n[0] == k:
                        go_b.set()
                        if not b_done.wait(30):
                            res['hung'] = True
                return tr
            return None
        sys.settrace(tr)
        try:
            res['a'] = build_and_serialise(wa)
        finally:
            sys.settrace(None)
        if not go_b.is_set():
            go_b.set()
    t1 = threading.Thread(target=ta)
    t2 = threading.Thread(target=tb, daemon=True)
    t2.start()
    t1.start()
    t1.join(120)
    t2.join(60)
    return {'a': res.get('a'), 'b': res.get('b'), 'hung': res['hung'] or t1.is_alive() or t2.is_alive()}


def explore(spec):
    wa, wb = spec['a'], spec['b']
    import musicxml.xmlelement.xmlelement  # noqa: F401  (post-import state = pristine state of every child)
    solo_a = in_child(lambda: build_and_serialise(wa))
    solo_b = in_child(lambda: build_and_serialise(wb))
    tl = in_child(lambda: trace_lines(wa))
    n = len(tl['first'])
    # first-use lines: executed in the first run of A but not in a second run in the same process
    second = {}
    for x in tl['second']:
        second[tuple(x)] = second.get(tuple(x), 0) + 1
    first_use = []
    seen = {}
    for i, x in enumerate(tl['first']):
        x = tuple(x)
        seen[x] = seen.get(x, 0) + 1
        if seen[x] > second.get(x, 0):
            first_use.append(i + 1)
    first_use = set(first_use)
    ks = spec.get('ks') or list(range(1, n + 1))
    if spec.get('of'):
        # one of several interleaved slices of the complete line set (the slices of a pair run on different cores)
        ks = ks[spec.get('slice', 0)::spec['of']]
    if spec.get('max_k') and len(ks) > spec['max_k']:
        # deterministic thinning: every stride-th line, window rotated by 'offset' (the seed)
        stride = -(-len(ks) // spec['max_k'])
        tail = [k for k in ks if k > n - 80] if wa.get('write') else []
        ks = ks[(spec.get('offset', 0) % stride)::stride]
        # a workload that writes its file does so in its last lines: those are never thinned away
        ks = sorted(set(ks) | set(tail))
    bad = []
    hung = 0
    nontrivial = 0
    for k in ks:
        r = in_child(lambda k=k: run_schedule(wa, wb, k))
        if r is None:
            bad.append({'k': k, 'a': None, 'b': None, 'note': 'child died'})
            continue
        if k in first_use:
            nontrivial += 1
        if r['hung']:
            hung += 1
            continue
        if r['a'] != solo_a or r['b'] != solo_b:
            bad.append({'k': k, 'a': None if r['a'] == solo_a else r['a'][:300],
                        'b': None if r['b'] == solo_b else r['b'][:300],
                        'line': tl['first'][k - 1] if k - 1 < n else None})
    return {'n_lines': n, 'first_use_lines': len(first_use), 'solo': {'a': solo_a[:200], 'b': solo_b[:200]},
            'bad': bad[:50], 'n_bad': len(bad), 'ran': len(ks), 'nontrivial': nontrivial, 'hung': hung}


if __name__ == '__main__':
    out = explore(json.loads(sys.argv[1]))
    sys.stdout.write(json.dumps(out))
