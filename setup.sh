#!/bin/bash
# offline setup: make sure hypothesis (and jsonschema, atheris when available) are importable by /venv/bin/python
HERE="$(cd "$(dirname "${BASH_SOURCE[0]}")" && pwd)"
PY="${VERIF_PYTHON:-/venv/bin/python}"
W=/opt/veriftools/wheels
mkdir -p "$HERE/.deps" "$HERE/evidence" "$HERE/replays"
export PYTHONPATH="$HERE/.deps"
"$PY" -c 'import hypothesis' 2>/dev/null || "$PY" -m pip install -q --no-index --find-links "$W" --target "$HERE/.deps" hypothesis || exit 1
"$PY" -c 'import jsonschema' 2>/dev/null || "$PY" -m pip install -q --no-index --find-links "$W" --target "$HERE/.deps" jsonschema || true
"$PY" -c 'import atheris' 2>/dev/null || "$PY" -m pip install -q --no-index --find-links "$W" --target "$HERE/.deps" atheris || true
"$PY" -c 'import hypothesis, musicxml; print("setup ok: hypothesis", hypothesis.__version__)'
