#!/bin/bash
# re-evaluate every saved seed against its own property's quick check (and optional extra properties)
cd "$(dirname "$0")/.."
for i in $(seq -w 1 20); do
  id=C$i
  [ -d /tmp/seed/$id ] || continue
  echo "== $id"
  tools/eval_seed.py /tmp/seed/$id $id --save $id ${1:+--props $1} 2>&1 | egrep "tests:|demo:|exit " | cut -c1-200
done
