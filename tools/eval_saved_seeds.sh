#!/bin/bash
# re-evaluate saved seeds (own property's quick check) from their scratch worktrees; args: list of seed names or none=all
cd "$(dirname "$0")/.."
names="$@"; [ -z "$names" ] && names=$(ls seeded | grep -v INDEX)
for n in $names; do
  prop=${n%%-*}
  if [[ "$n" == *-2 ]]; then wt=/tmp/seed2/$prop; elif [[ "$n" == *-3 ]]; then wt=/tmp/seed3/$prop; elif [[ "$n" == *-4 ]]; then wt=/tmp/seed4/$prop; else wt=/tmp/seed/$prop; fi
  [ -d "$wt" ] || { echo "$n: no worktree"; continue; }
  echo "== $n"
  tools/eval_seed.py $wt $prop --save $n 2>&1 | egrep "exit " | cut -c1-160
done
tools/seed_index.py > /dev/null
