#!/bin/bash
# re-evaluate saved seeds (own property's quick check) from their scratch worktrees; args: list of seed names or none=all.
# Each worktree is first moved onto /repo's current HEAD (its uncommitted mutation is carried over as a patch; the
# stash is shared between worktrees and is not used).
cd "$(dirname "$0")/.."
names="$@"; [ -z "$names" ] && names=$(ls seeded | grep -v INDEX)
head=$(git -C /repo rev-parse HEAD)
mkdir -p /tmp/scratch
for n in $names; do
  prop=${n%%-*}
  case "$n" in *-2) wt=/tmp/seed2/$prop;; *-3) wt=/tmp/seed3/$prop;; *-4) wt=/tmp/seed4/$prop;; *-5) wt=/tmp/seed5/$prop;; *-6) wt=/tmp/seed6/$prop;; *-7) wt=/tmp/seed7/$prop;; *-8) wt=/tmp/seed8/$prop;; *-9) wt=/tmp/seed9/$prop;; *) wt=/tmp/seed/$prop;; esac
  [ -d "$wt" ] || { echo "$n: no worktree"; continue; }
  if [ "$(git -C $wt rev-parse HEAD)" != "$head" ]; then
    p=/tmp/scratch/rebase_$n.patch
    git -C $wt diff > $p
    git -C $wt checkout -q --force --detach $head && git -C $wt apply $p || { echo "$n: patch does not apply on current HEAD"; continue; }
  fi
  echo "== $n"
  tools/eval_seed.py $wt $prop --save $n 2>&1 | egrep "exit |demo:" | cut -c1-160
done
tools/seed_index.py > /dev/null
