#!/usr/bin/env python3
"""Confirm and evaluate one seeded change living (uncommitted) in a scratch worktree.

usage: eval_seed.py <worktree> <property id> [--all] [--tier quick|thorough] [--save NAME]

1. the 192 pinned tests pass in the worktree with the change,
2. the demonstration fails with the change and passes without it (patch reverse-applied),
3. our check(s) are run with VERIF_REPO=<worktree>: exit 1 expected for the target property.
With --save the patch, the demonstration and meta.json are written to /verif/seeded/<NAME>/.
"""
import argparse
import json
import os
import shutil
import subprocess
import sys
import time

ROOT = os.path.dirname(os.path.dirname(os.path.abspath(__file__)))
ap = argparse.ArgumentParser()
ap.add_argument('wt')
ap.add_argument('prop')
ap.add_argument('--all', action='store_true')
ap.add_argument('--tier', default='quick')
ap.add_argument('--save')
ap.add_argument('--props')
a = ap.parse_args()
wt, prop = a.wt.rstrip('/'), a.prop


def sh(cmd, cwd=None, env=None, timeout=3600):
    r = subprocess.run(cmd, shell=True, cwd=cwd, env=env, capture_output=True, text=True, timeout=timeout)
    return r.returncode, (r.stdout + r.stderr)


meta = {'property': prop, 'worktree': wt, 'ran': []}
diff = sh('git diff', cwd=wt)[1]
if not diff.strip():
    print('no uncommitted change in', wt)
    sys.exit(2)
rc, out = sh('/venv/bin/python -m pytest -q -p no:cacheprovider --timeout=900 2>&1 | tail -3', cwd=wt)
patch_file = '/tmp/scratch/eval_seed_%s_%d.diff' % (prop, os.getpid())
with open(patch_file, 'w') as f:
    f.write(diff)
meta['pinned_tests'] = out.strip().splitlines()[-1] if out.strip() else ''
print('tests:', meta['pinned_tests'])
demo = 'demo_%s.py' % prop
env = dict(os.environ, PYTHONPATH=wt)
rc_with, out_with = sh('/venv/bin/python -W ignore %s' % demo, cwd=wt, env=env)
# the stash stack is shared by all worktrees of /repo: reverse-apply the patch instead of stashing
assert sh('git apply -R %s' % patch_file, cwd=wt)[0] == 0
rc_without, out_without = sh('/venv/bin/python -W ignore %s' % demo, cwd=wt, env=env)
assert sh('git apply %s' % patch_file, cwd=wt)[0] == 0
os.unlink(patch_file)
meta['demo_with_change_exit'] = rc_with
meta['demo_without_change_exit'] = rc_without
print('demo: with change exit=%d, without exit=%d' % (rc_with, rc_without))
meta['confirmed'] = ('192 passed' in meta['pinned_tests']) and rc_with != 0 and rc_without == 0
props = [prop]
if a.all:
    props = ['C%02d' % i for i in range(1, 21)]
if a.props:
    props = a.props.split(',')
results = {}
for p in props:
    t0 = time.time()
    rc, out = sh('./check %s --tier %s' % (p, a.tier), cwd=ROOT, env=dict(os.environ, VERIF_REPO=wt, VERIF_EVIDENCE_DIR='/tmp/scratch/evidence_seed'))
    lines = [l for l in out.splitlines() if l.startswith('VIOLATION') or l.startswith('HARNESS') or l.startswith('  kind=')]
    results[p] = {'exit': rc, 'wall_s': round(time.time() - t0, 1), 'lines': lines[:4]}
    print(p, 'exit', rc, '%.0fs' % (time.time() - t0), (lines[0][:200] if lines else ''))
meta['checks'] = results
meta['detected_by'] = sorted(p for p, r in results.items() if r['exit'] == 1)
if a.save:
    d = os.path.join(ROOT, 'seeded', a.save)
    os.makedirs(d, exist_ok=True)
    with open(os.path.join(d, 'patch.diff'), 'w') as f:
        f.write(diff)
    shutil.copy(os.path.join(wt, demo), os.path.join(d, demo))
    notes = os.path.join(wt, 'NOTES_%s.md' % prop)
    if os.path.exists(notes):
        shutil.copy(notes, os.path.join(d, 'NOTES.md'))
    old = {}
    mp = os.path.join(d, 'meta.json')
    if os.path.exists(mp):
        old = json.load(open(mp))
    old.update(meta)
    with open(mp, 'w') as f:
        json.dump(old, f, indent=1)
    print('saved to', d)
