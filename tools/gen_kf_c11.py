#!/usr/bin/env python3
"""Authoring aid (never run by a check): enumerate ALL histories 'k adds (k<=3) then one removal' over the full
alphabet of every type on the CURRENT tree and write those that show the stale-required mark of
KF-R-stale-required to kf/C11-stale-required.jsonl.  Inside that bound the known finding is matched by exact
(type, effective history); a history inside the bound that is not listed is a new violation."""
import json
import multiprocessing
import os
import sys

ROOT = os.path.dirname(os.path.dirname(os.path.abspath(__file__)))
sys.path[:0] = [os.environ.get('VERIF_REPO', '/repo'), ROOT, os.path.join(ROOT, '.deps')]
import warnings  # noqa: E402
warnings.filterwarnings('ignore')


def job(args):
    t, el, first = args
    from mxv.props import c11
    out = []
    n = 0
    for ops in c11.enum_add_remove(t, c11.BOUND_ADDS, [first]):
        A, f = c11.check(el, ops, [])
        if A.e is None:
            break
        if any(v[0] != 'ok' for v in A.results[:-1]):
            continue
        n += 1
        if f and f['kind'] == 'stale-required-after-remove':
            out.append(json.dumps({'type': t, 'ops': f['norm']['ops']}, sort_keys=True))
    return n, out


def main():
    from mxv import gen
    from mxv.oracle.schema import schema
    s = schema()
    jobs = [(t, els[0], a) for t, els in gen.types_and_elements() for a in s.alphabet(t)]
    total, lines = 0, set()
    with multiprocessing.Pool(16) as pool:
        for n, out in pool.imap_unordered(job, jobs, chunksize=1):
            total += n
            lines.update(out)
    path = os.path.join(ROOT, 'kf', 'C11-stale-required.jsonl')
    with open(path, 'w') as f:
        for line in sorted(lines):
            f.write(line + '\n')
    print('histories inside the bound: %d, with stale-required: %d -> %s' % (total, len(lines), path))


if __name__ == '__main__':
    main()
