#!/usr/bin/env python3
"""Authoring aid (never run by a check): for the types of KF-M-compatible-child-rejected enumerate every sequence of
at most 3 ACCEPTED additions over the full alphabet on the CURRENT tree and write each (held, refused child) where a
still-arrangeable child is refused to kf/C12-compatible-child-rejected.jsonl."""
import json
import os
import sys

ROOT = os.path.dirname(os.path.dirname(os.path.abspath(__file__)))
sys.path[:0] = [os.environ.get('VERIF_REPO', '/repo'), ROOT, os.path.join(ROOT, '.deps')]
import warnings  # noqa: E402
warnings.filterwarnings('ignore')
from mxv.props import c12  # noqa: E402
from mxv.oracle.schema import schema  # noqa: E402

s = schema()
lines = set()
n = 0
for t in c12.FULL_ALPHABET_TYPES:
    el = [e for e, tt in sorted(s.element_type.items()) if tt == t][0]
    al = s.alphabet(t)
    frontier = [[]]
    for depth in range(0, 4):
        nxt = []
        for held in frontier:
            for a in al:
                run, f = c12.execute_b(el, [['add', x] for x in held] + [['add', a]])
                n += 1
                if run.names() != held + [a] and run.names() != held:
                    continue
                if f is not None:
                    lines.add(json.dumps({'type': t, 'held': held, 'rejected': a}, sort_keys=True))
                elif run.names() == held + [a] and depth < 3:
                    nxt.append(held + [a])
        frontier = nxt
path = os.path.join(ROOT, 'kf', 'C12-compatible-child-rejected.jsonl')
with open(path, 'w') as f:
    for line in sorted(lines):
        f.write(line + '\n')
print('%d offers tried, %d known refusals -> %s' % (n, len(lines), path))
