#!/usr/bin/env python3
"""(re)writes /verif/MANIFEST.json from the table below; run after adding a check"""
import json
import os

ROOT = os.path.dirname(os.path.dirname(os.path.abspath(__file__)))

NOTE = ('pinned W3C schema copy (sha256 checked) is the specification; oracle = independent XSD->DFA compiler and '
        'lexical validator in mxv/oracle, self-tested on every run and cross-validated by C03; CPython, xml.etree; '
        'Hypothesis for generation/shrinking only. Bounded search: absence is not established.')

CHECKS = {
    'C01': ('bounded-exhaustive short histories + Hypothesis adaptive op histories and nested documents; output '
            'validated by independent XSD-derived DFA',
            'Generated-history search: every returned to_string() is parsed and every checked node\'s child word is '
            'run through the oracle DFA; all histories <=3 ops over a deterministic symbol subset are enumerated for '
            'all 94 types, plus seeded adaptive histories with all mutating ops, checked children with content of their '
            'own, child objects shared between two parents, and nested documents.', '3 C01'),
    'C02': ('exhaustive word enumeration per content model up to a length bound + 2-switch DFA cover + Hypothesis '
            'DFA walks; acceptance/order oracle, API and parser paths',
            'All words of each of the 94 regular languages up to a stated length (complete), transition-pair cover '
            'and random long words are fed child by child; any rejection, re-ordering or serialisation difference is a '
            'violation unless it is one of the exactly enumerated known findings.', '3 C02'),
    'C03': ('complete enumeration of schema declarations; automata language equivalence (product construction) '
            'between library template and independent DFA',
            'Finite domain enumerated completely: 441 element bindings, 94 language equivalences decided on automata, '
            '1 9xx attribute pairs, all type/group/attribute-group classes and the loaded schema copy.', '3 C03'),
    'C06': ('model-based invariant over generated operation histories (bounded-exhaustive <=3 ops + Hypothesis '
            'adaptive histories)',
            'After every op of every generated history both child views, parent links and (when it returns) the '
            'serialised children are compared with a reference list updated by successful calls only.', '3 C06'),
    'C07': ('add-only histories (exhaustive <=3 adds + Hypothesis, oracle-steered) judged by an independent '
            'completability search on the DFA',
            'Every accepted add is followed by an exact completability decision (exists an accepted word dominating '
            'the held multiset) on the oracle DFA.', '3 C07'),
    'C10': ('differential twin over generated failing histories (bounded-exhaustive + Hypothesis) with replay-based '
            'acceptance probes',
            'A history with failing ops is run against a twin that skips them; observations after every step and '
            'per-symbol acceptance (by replay on fresh objects) must agree; failing ops include negative forwards and '
            'the removal of a child that is attached to another element, which must itself stay as it was.', '3 C10'),
    'C13': ('Hypothesis-drawn interleavings of 2-3 instance histories vs solo replays; pristine-subprocess behaviour '
            'panel',
            'Each instance\'s observation trace under a harness-owned interleaving must equal its solo trace; a fresh '
            'instance of every type is fingerprinted after the campaign and compared with a brand-new process.',
            '3 C13'),
    'C14': ('Hypothesis-generated element trees with post-construction attribute/value edits; copy-vs-original '
            'differential and mutation independence',
            'deepcopy text and public dump equality, original unchanged, and independence under drawn mutations of '
            'copy and original; the same for deep copies of nested elements (compared with a detached rebuild) and for '
            'unchecked nodes holding arbitrary children.', '3 C14'),
    'C15': ('complete (class, child/attribute name) enumeration + Hypothesis intent sequences run through both API '
            'surfaces (differential)',
            'Every schema child and attribute name of every class is exercised through the dot surface against the '
            'explicit call (including =None on unset attributes and three same-named children with a replaced one); '
            'generated mixed intent sequences are compared step by step.', '3 C15'),
    'C16': ('Hypothesis strings over the XML Char range injected into every string position of generated trees; '
            'round-trip through xml.etree, repeat-call and no-intermediate-serialisation twin',
            'Exact recovery of every injected string and of the structure by an independent XML parser; repeated and '
            'subtree serialisations compared; side-effect freedom by twin; floats needing exponent notation must come '
            'back as plain decimal literals of exactly that value.', '3 C16'),
    'C18': ('Hypothesis histories on unchecked parents with children from all 441 classes (model-based), '
            'checked/unchecked byte-identity differential, lock-step twin for nested checked elements',
            'No exception and insertion order on unchecked elements, byte identity with the checked twin on valid '
            'words, identical behaviour of a checked element whether or not its ancestors are unchecked, per-element '
            'isolation of late-switched and shortcut-created elements, and identical value / attribute validation '
            'for unchecked and checked elements of all 441 classes.',
            '3 C18'),
    'C04': ('exhaustive (element, attribute) x route x validity enumeration + Hypothesis set/overwrite/remove histories '
            'against a model dict; serialised attributes read back with xml.etree',
            'Every declared pair is exercised on the constructor, dot and parser routes with oracle-valid and near-miss '
            'values, plus undeclared names; histories are checked against a dict model incl. required-attribute '
            'refusal and the serialised attribute set.', '3 C04'),
    'C05': ('exhaustive enumeration-literal x type cross product and value panels through three vehicles, plus '
            'Hypothesis numbers/strings; independent XSD lexical-space validator as oracle',
            'Accepted values must emit text inside the type\'s lexical space (independent validator); every '
            'oracle-valid text offered in its documented Python representation must be accepted; element-only types '
            'must refuse text.', '3 C05'),
    'C08': ('Hypothesis-generated complete documents built through the API; write -> parse -> write round trip with a '
            'typed infoset comparator',
            'Own output is re-read and compared as a typed infoset; second trip byte-identical; integer types stay '
            'int.', '3 C08'),
    'C11': ('rebuilt-twin differential over generated add/remove histories (bounded-exhaustive + Hypothesis) with '
            'replay-based acceptance probes',
            'After removals the element is compared with a fresh element holding the survivors: verdict/text, order '
            'and per-symbol acceptance; all histories "k adds then one removal" over the full alphabets are enumerated '
            '(k<=2 quick, k<=3 thorough) and inside that bound the open finding is matched by exact history.', '3 C11'),
    'C12': ('exact-DP enumeration of unique-arrangement multisets and all their permutations; oracle-steered add '
            'histories judged by completability',
            'Every multiset (size<=3/4) with exactly one valid arrangement is fed in every permutation; every '
            'rejection in add-only histories is checked against the completability oracle.', '3 C12'),
    'C09': ('library-independent generation of schema-valid documents (oracle derivation -> xml.etree, three encodings) '
            '+ structure-aware mutation; typed infoset comparison and no-silent-loss containment',
            'Valid files produced without the library must parse and re-serialise to the same typed infoset; mutated '
            'files must either be rejected or keep every element / attribute / text fact of the input.', '3 C09'),
    'C17': ('fault enumeration: every node made to fail + exception injected at every k-th serialiser step x prior '
            'file states; subprocess configurations for default encodings (ASCII, UTF-8, emulated Latin-1/cp1252)',
            'Every fault point of generated scores is enumerated against three prior destination states (bytes must be '
            'unchanged); success path compared byte-for-byte with to_string() over five prior states (absent, empty, '
            'shorter, arbitrary bytes, longer); whole import/build/write/parse pipeline compared across four default '
            'text encodings in fresh interpreters, including files stored in other declared encodings.', '3 C17'),
    'C19': ('exception-type and output oracle over bounded-exhaustive and Hypothesis misuse histories on every class; '
            'failures bucketed by raise site',
            'Every escaping exception is classified against the documented families (with oracle-judged invalidity of '
            'the offered value / name); captured stdout/stderr must be empty; 60 s watchdog.', '3 C19'),
    'C20': ('harness-owned schedules: every single-pre-emption line-level interleaving of two threads via sys.settrace, '
            'each in a forked pristine process; pairs generated from the oracle type graph',
            'For generated workload pairs every pre-emption point of thread A (thousands per pair) is executed with '
            'thread B run to completion in the gap; both results must equal the solo results.', '3 C20'),
}

ALL = ['C%02d' % i for i in range(1, 21)]


def main():
    checks = []
    for pid in ALL:
        if pid not in CHECKS:
            continue
        tech, text, ref = CHECKS[pid]
        checks.append({
            'property_id': pid,
            'quick_cmd': './check %s --tier quick' % pid,
            'thorough_cmd': './check %s --tier thorough' % pid,
            'evidence_file': 'evidence/%s.json' % pid,
            'replay_cmd_template': './check %s --replay {path}' % pid,
            'engine': 'mxv',
            'level_claimed': {'category': 'fault_enumeration' if pid == 'C17' else 'exploration', 'text': text, 'design_ref': 'DESIGN.md section ' + ref},
            'level_note': NOTE,
            'technique': tech,
        })
    na = [{'property_id': p, 'reason': 'check not yet registered (under construction; see DESIGN.md section 4)'}
          for p in ALL if p not in CHECKS]
    m = {
        'version': 1,
        'setup_cmd': './setup.sh',
        'hooks': {
            'guard': 'MUSICXML_VERIF',
            'enable': 'no source hooks are needed: pure-Python library, every check imports /repo\'s working tree '
                      '(PYTHONPATH=$VERIF_REPO, default /repo); ./check exports MUSICXML_VERIF=1 for uniformity',
            'baseline_off_cmd': 'cd /repo && env -u MUSICXML_VERIF /venv/bin/python -m pytest -ra -q -p '
                                'no:cacheprovider --timeout=900 --continue-on-collection-errors',
            'source_commits': [],
            'add_only': True,
        },
        'engines': [{'name': 'mxv', 'path': 'mxv/', 'serves_properties': sorted(CHECKS),
                     'kind_free_text': 'property-based testing: Hypothesis strategies / exhaustive enumeration against '
                                       'an independent XSD-derived oracle; runner mxv/run.py'}],
        'checks': checks,
        'notes': 'Known findings (open) and repaired defects (fixed) are listed in known_findings.json; '
                 'VERIF_SEED and VERIF_TIER are honoured; exit 2 = harness error.',
        'not_applicable': na,
    }
    with open(os.path.join(ROOT, 'MANIFEST.json'), 'w') as f:
        json.dump(m, f, indent=1)
        f.write('\n')


if __name__ == '__main__':
    main()
