#!/usr/bin/env python3
"""authoring aid: extract the exact failing inputs of one known finding from a --collect file

usage: kf_inputs.py COLLECT.jsonl OUT.jsonl --type T[,T2] --kind K1,K2 [--site S1,S2] [--unlisted-only]
"""
import argparse
import json

ap = argparse.ArgumentParser()
ap.add_argument('src')
ap.add_argument('out')
ap.add_argument('--type')
ap.add_argument('--kind')
ap.add_argument('--site')
ap.add_argument('--append', action='store_true')
a = ap.parse_args()
types = a.type.split(',') if a.type else None
kinds = a.kind.split(',') if a.kind else None
sites = [None if s == 'None' else s for s in a.site.split(',')] if a.site else None
seen = set()
if a.append:
    try:
        seen = set(l.strip() for l in open(a.out) if l.strip())
    except FileNotFoundError:
        pass
for line in open(a.src):
    r = json.loads(line)
    if types and r['type'] not in types:
        continue
    if kinds and r['kind'] not in kinds:
        continue
    if sites and r['site'] not in sites:
        continue
    seen.add(json.dumps(r['input'], sort_keys=True, separators=(',', ':')))
with open(a.out, 'w') as f:
    for s in sorted(seen):
        f.write(s + '\n')
print(len(seen), 'inputs ->', a.out)
