#!/bin/bash
# run every registered check once: tools/run_all.sh [quick|thorough] [seed]; prints id, exit code, seconds, summary line
cd "$(dirname "$0")/.."
tier=${1:-quick}; seed=${2:-1}
for i in $(seq -w 1 20); do
  t0=$(date +%s)
  out=$(VERIF_SEED=$seed ./check C$i --tier $tier 2>&1); rc=$?
  t1=$(date +%s)
  echo "C$i rc=$rc $((t1-t0))s $(echo "$out" | grep -c KNOWN-FINDING) KF | $(echo "$out" | grep -v KNOWN | tail -1 | cut -c1-140)"
  [ $rc -ne 0 ] && echo "$out" | egrep "VIOL|kind=|HARNESS" | head -4 | cut -c1-300
done
exit 0
