#!/usr/bin/env python3
"""writes seeded/INDEX.md from seeded/*/meta.json and patch.diff"""
import json
import os
import re

ROOT = os.path.dirname(os.path.dirname(os.path.abspath(__file__)))
d = os.path.join(ROOT, 'seeded')
rows = []
for name in sorted(os.listdir(d)):
    mp = os.path.join(d, name, 'meta.json')
    if not os.path.exists(mp):
        continue
    m = json.load(open(mp))
    patch = open(os.path.join(d, name, 'patch.diff')).read()
    files = sorted(set(re.findall(r'^\+\+\+ b/(.*)$', patch, re.M)))
    files = [f.replace('musicxml/', '') for f in files if 'defaults' not in f and 'generate_' not in f] or files
    det = m.get('detected_by', [])
    own = m['property'] in det
    rows.append('| %s | %s | %s | %s | %s | %s |' % (
        name, m['property'], ', '.join(files), 'yes' if m.get('confirmed') else 'NO',
        ', '.join(det) or '-', 'yes' if own else 'NO'))
with open(os.path.join(d, 'INDEX.md'), 'w') as f:
    f.write('# Seeded changes\n\nEach directory holds `patch.diff` (apply with `git -C /repo apply`), the author\'s '
            'demonstration `demo_<id>.py`, the author\'s `NOTES.md` (what the change needs in order to manifest) and '
            '`meta.json` (what was run).  "confirmed" = 192 pinned tests pass with the change, the demonstration '
            'fails with it and passes without it (re-run by `tools/eval_seed.py`).  "-2" = second, independent '
            'author who was told not to reuse the first author\'s idea.\n\n'
            '| seed | property | files changed | confirmed | quick checks that report a VIOLATION | caught by own check |\n'
            '|---|---|---|---|---|---|\n' + '\n'.join(rows) + '\n')
print('\n'.join(rows))
