#!/usr/bin/env python3
"""authoring aid: summarise a --collect file: counts by (type, kind, site) and the smallest input per (kind, site)"""
import collections
import json
import sys
rows = [json.loads(l) for l in open(sys.argv[1])]
maxn = int(sys.argv[2]) if len(sys.argv) > 2 else 25
c = collections.Counter((r['kind'], r['site']) for r in rows)
for k, v in c.most_common():
    ts = collections.Counter(r['type'] for r in rows if (r['kind'], r['site']) == k)
    print(v, k, dict(ts.most_common(8)), '(+%d types)' % max(0, len(ts) - 8))
seen = set()
n = 0
for r in sorted(rows, key=lambda r: len(json.dumps(r['input']))):
    k = (r['kind'], r['site'], r['type'])
    if k in seen:
        continue
    seen.add(k)
    n += 1
    if n > maxn:
        break
    print(' ', r['kind'], r['type'], json.dumps(r['input'])[:260], '->', str(r['observed'])[:160])
