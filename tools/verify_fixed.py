#!/usr/bin/env python3
"""Replays the witness of every 'fixed' entry of known_findings.json against a scratch worktree of /repo at a given
commit (default: the commit before the first fix) and against the current tree.
Expected: VIOLATION on the old tree (exit 1), quiet on the current tree (exit 0)."""
import json
import os
import subprocess
import sys
import tempfile

ROOT = os.path.dirname(os.path.dirname(os.path.abspath(__file__)))
base = sys.argv[1] if len(sys.argv) > 1 else 'd2f812a'
wt = tempfile.mkdtemp(prefix='mxv_base_')
subprocess.check_call(['git', '-C', '/repo', 'worktree', 'add', '-q', '--detach', wt, base])
bad = 0
try:
    d = json.load(open(os.path.join(ROOT, 'known_findings.json')))
    for e in d['findings']:
        if e['status'] != 'fixed':
            continue
        if e.get('verify_base', base) != base:
            print('skip %-36s (verify with: tools/verify_fixed.py %s)' % (e['id'], e['verify_base']))
            continue
        for prop, ws in e['witnesses'].items():
            for i, w in enumerate(ws):
                fd, p = tempfile.mkstemp(suffix='.json')
                with os.fdopen(fd, 'w') as f:
                    json.dump(w, f)
                res = {}
                for name, repo in (('old', wt), ('now', '/repo')):
                    env = dict(os.environ, VERIF_REPO=repo)
                    r = subprocess.run([os.path.join(ROOT, 'check'), prop, '--replay', p], env=env,
                                       capture_output=True, text=True)
                    res[name] = r.returncode
                os.unlink(p)
                ok = res['old'] == 1 and res['now'] == 0
                bad += 0 if ok else 1
                print('%-4s %-36s %s[%d] old=%s now=%s' % ('ok' if ok else 'BAD', e['id'], prop, i, res['old'], res['now']))
finally:
    subprocess.call(['git', '-C', '/repo', 'worktree', 'remove', '--force', wt])
sys.exit(1 if bad else 0)
