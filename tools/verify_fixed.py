#!/usr/bin/env python3
"""Replays the witness of every 'fixed' entry of known_findings.json against a scratch worktree of /repo at the entry's
pre-fix commit ('verify_base' of the entry; default: the original baseline d2f812a) and against the current tree.
Expected: VIOLATION on the old tree (exit 1), quiet on the current tree (exit 0)."""
import json
import os
import subprocess
import sys
import tempfile

ROOT = os.path.dirname(os.path.dirname(os.path.abspath(__file__)))
default_base = 'd2f812a'
only = sys.argv[1] if len(sys.argv) > 1 else None        # optional: id substring filter
d = json.load(open(os.path.join(ROOT, 'known_findings.json')))
fixed = [e for e in d['findings'] if e['status'] == 'fixed' and (only is None or only in e['id'])]
bad = 0
for base in sorted({e.get('verify_base', default_base) for e in fixed}):
    wt = tempfile.mkdtemp(prefix='mxv_base_')
    subprocess.check_call(['git', '-C', '/repo', 'worktree', 'add', '-q', '--detach', wt, base])
    try:
        for e in fixed:
            if e.get('verify_base', default_base) != base:
                continue
            for prop, ws in e['witnesses'].items():
                for i, w in enumerate(ws):
                    fd, p = tempfile.mkstemp(suffix='.json')
                    with os.fdopen(fd, 'w') as f:
                        json.dump(w, f)
                    res = {}
                    for name, repo in (('old', wt), ('now', '/repo')):
                        env = dict(os.environ, VERIF_REPO=repo)
                        r = subprocess.run([os.path.join(ROOT, 'check'), prop, '--replay', p], env=env,
                                           capture_output=True, text=True)
                        res[name] = r.returncode
                    os.unlink(p)
                    ok = res['old'] == 1 and res['now'] == 0
                    bad += 0 if ok else 1
                    print('%-4s %-40s %s[%d] base=%s old=%s now=%s' % ('ok' if ok else 'BAD', e['id'], prop, i, base,
                                                                         res['old'], res['now']))
    finally:
        subprocess.call(['git', '-C', '/repo', 'worktree', 'remove', '--force', wt])
sys.exit(1 if bad else 0)
